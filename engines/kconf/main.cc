// kernel-conformance: the same syscall scenarios against the REAL Linux kernel and against sim::Kernel; results and errno must be
// identical. Real execution is used only here, to validate the stub (DESIGN.md section 7), never to decide a property.
#include "../../sim/sim.h"
#include <cerrno>
#include <cstring>
#include <cstdio>
#include <string>
#include <vector>
#include <functional>
#include <fcntl.h>
#include <unistd.h>
#include <signal.h>
#include <sys/epoll.h>
#include <sys/eventfd.h>
#include <sys/timerfd.h>
#include <time.h>

using namespace sim;

struct KEv { uint32_t events; uint64_t data; };

struct Sys {
    virtual ~Sys() {}
    virtual int pipe_(int fd[2]) = 0;
    virtual int close_(int fd) = 0;
    virtual int dup_(int fd) = 0;
    virtual int nonblock(int fd) = 0;
    virtual long read_(int fd, void *b, size_t n) = 0;
    virtual long write_(int fd, const void *b, size_t n) = 0;
    virtual int eventfd_(unsigned init, int flags) = 0;
    virtual int timerfd_(int flags) = 0;
    virtual int settime(int fd, uint64_t value_ns, uint64_t interval_ns) = 0;
    virtual int ep_create() = 0;
    virtual int ep_ctl(int ep, int op, int fd, uint32_t events, uint64_t data) = 0;
    virtual int ep_wait(int ep, std::vector<KEv> &out, int max) = 0;   // timeout 0
    virtual void pass_time(uint64_t ns) = 0;
    virtual int base() = 0;   // lowest free descriptor at start
};

struct RealSys : Sys {
    int b = -1;
    int base() override { if (b < 0) { b = dup(0); close(b); } return b; }
    int pipe_(int fd[2]) override { return pipe(fd); }
    int close_(int fd) override { return close(fd); }
    int dup_(int fd) override { return dup(fd); }
    int nonblock(int fd) override { return fcntl(fd, F_SETFL, O_NONBLOCK); }
    long read_(int fd, void *bf, size_t n) override { return read(fd, bf, n); }
    long write_(int fd, const void *bf, size_t n) override { return write(fd, bf, n); }
    int eventfd_(unsigned init, int flags) override { return eventfd(init, flags); }
    int timerfd_(int flags) override { return timerfd_create(CLOCK_MONOTONIC, flags); }
    int settime(int fd, uint64_t v, uint64_t i) override {
        struct itimerspec its;
        its.it_value.tv_sec = v / 1000000000ULL; its.it_value.tv_nsec = v % 1000000000ULL;
        its.it_interval.tv_sec = i / 1000000000ULL; its.it_interval.tv_nsec = i % 1000000000ULL;
        return timerfd_settime(fd, 0, &its, nullptr);
    }
    int ep_create() override { return epoll_create1(0); }
    int ep_ctl(int ep, int op, int fd, uint32_t events, uint64_t data) override {
        struct epoll_event ev; ev.events = events; ev.data.u64 = data;
        return epoll_ctl(ep, op, fd, &ev);
    }
    int ep_wait(int ep, std::vector<KEv> &out, int max) override {
        struct epoll_event evs[64];
        int n = epoll_wait(ep, evs, max, 0);
        for (int i = 0; i < n; i++) out.push_back(KEv{evs[i].events, evs[i].data.u64});
        return n;
    }
    void pass_time(uint64_t ns) override { struct timespec ts = {(time_t)(ns / 1000000000ULL), (long)(ns % 1000000000ULL)}; nanosleep(&ts, nullptr); }
};

struct SimSys : Sys {
    Kernel &k() { return R->k; }
    int base() override { return 3; }
    int pipe_(int fd[2]) override { return k().k_pipe(fd, OWN_USER); }
    int close_(int fd) override { return k().k_close(fd, OWN_USER); }
    int dup_(int fd) override { return k().k_dup(fd, OWN_USER); }
    int nonblock(int fd) override { return k().k_fcntl(fd, F_SETFL, O_NONBLOCK, OWN_USER); }
    long read_(int fd, void *b, size_t n) override { return k().k_read(fd, b, n, OWN_USER); }
    long write_(int fd, const void *b, size_t n) override { return k().k_write(fd, b, n, OWN_USER); }
    int eventfd_(unsigned init, int flags) override { return k().k_eventfd(init, flags, OWN_USER); }
    int timerfd_(int flags) override { return k().k_timerfd_create(CLOCK_MONOTONIC, flags, OWN_USER); }
    int settime(int fd, uint64_t v, uint64_t i) override { return k().k_timerfd_settime(fd, 0, v, i, OWN_USER); }
    int ep_create() override { return k().k_epoll_create(0, OWN_USER); }
    int ep_ctl(int ep, int op, int fd, uint32_t events, uint64_t data) override { return k().k_epoll_ctl(ep, op, fd, events, data, OWN_USER); }
    int ep_wait(int ep, std::vector<KEv> &out, int max) override {
        struct __attribute__((packed)) kev { uint32_t events; uint64_t data; } evs[64];
        int n = k().k_epoll_wait(ep, evs, max, 0, OWN_USER);
        for (int i = 0; i < n; i++) out.push_back(KEv{evs[i].events, evs[i].data});
        return n;
    }
    void pass_time(uint64_t ns) override { R->now += ns; }
};

struct Log {
    std::vector<std::string> lines;
    Sys *s;
    int b;
    void rec(const char *what, long rc) {
        char buf[160];
        int e = rc < 0 ? errno : 0;
        snprintf(buf, sizeof buf, "%s -> %ld errno=%d", what, rc, e);
        lines.push_back(buf);
    }
    std::vector<std::string> notes;
    void note(const char *what, long rc) {
        char buf[200];
        snprintf(buf, sizeof buf, "%s -> %ld errno=%d (not compared)", what, rc, rc < 0 ? errno : 0);
        notes.push_back(buf);
    }
    void recfd(const char *what, int fd) {   // descriptor numbers are compared relative to the lowest free one at start
        char buf[160];
        int e = fd < 0 ? errno : 0;
        snprintf(buf, sizeof buf, "%s -> fd+%d errno=%d", what, fd < 0 ? -1 : fd - b, e);
        lines.push_back(buf);
    }
    void recset(const char *what, int n, std::vector<KEv> &evs) {   // a ready set is a set: order is the kernel's business
        std::sort(evs.begin(), evs.end(), [](const KEv &a, const KEv &c) { return a.data < c.data; });
        std::string s = std::string(what) + " -> " + std::to_string(n) + (n < 0 ? " errno=" + std::to_string(errno) : "") + " {";
        for (auto &e : evs) s += " " + std::to_string(e.data) + ":" + std::to_string(e.events);
        lines.push_back(s + " }");
    }
};

typedef std::function<void(Sys &, Log &)> Scenario;

static std::vector<std::pair<std::string, Scenario>> scenarios() {
    std::vector<std::pair<std::string, Scenario>> v;
    v.push_back({"lowest-free numbering and reuse", [](Sys &s, Log &l) {
        int p[2], q[2];
        l.rec("pipe", s.pipe_(p)); l.recfd("p0", p[0]); l.recfd("p1", p[1]);
        l.rec("pipe", s.pipe_(q)); l.recfd("q0", q[0]);
        l.rec("close p0", s.close_(p[0]));
        int e = s.eventfd_(0, 0); l.recfd("eventfd takes the hole", e);
        int d = s.dup_(q[0]); l.recfd("dup goes to the end", d);
        l.rec("close twice 1", s.close_(p[1])); l.rec("close twice 2", s.close_(p[1]));
        l.rec("close bad", s.close_(9999));
        l.rec("dup bad", s.dup_(9999));
        s.close_(e); s.close_(d); s.close_(q[0]); s.close_(q[1]);
    }});
    v.push_back({"pipe fill, EAGAIN, drain, EOF, EPIPE", [](Sys &s, Log &l) {
        signal(SIGPIPE, SIG_IGN);
        int p[2]; s.pipe_(p); s.nonblock(p[0]); s.nonblock(p[1]);
        char buf[4096]; memset(buf, 'x', sizeof buf);
        l.rec("read empty", s.read_(p[0], buf, 8));
        long total = 0, rc;
        while ((rc = s.write_(p[1], buf, sizeof buf)) > 0) total += rc;
        l.rec("bytes until full", total); l.rec("write full", rc);
        l.rec("8-byte write on full pipe", s.write_(p[1], buf, 8));
        l.rec("read 8", s.read_(p[0], buf, 8));
        // DOCUMENTED DEVIATION (DESIGN.md 10): Linux accounts pipe space in whole pages, so after reading 8 bytes of a full pipe an
        // 8-byte write still fails until a whole page was consumed; the stub frees space byte-wise. Both are outcomes write(2) may
        // have at that point (EAGAIN sooner or later); the result is printed but not compared.
        l.note("8-byte write after reading 8 of a full pipe", s.write_(p[1], buf, 8));
        long drained = 0;
        while ((rc = s.read_(p[0], buf, sizeof buf)) > 0) drained += rc;
        l.rec("drain ends with", rc);
        l.rec("close writer", s.close_(p[1]));
        l.rec("read after writer closed", s.read_(p[0], buf, 8));
        int q[2]; s.pipe_(q); s.nonblock(q[1]);
        s.close_(q[0]);
        l.rec("write without reader", s.write_(q[1], buf, 8));
        l.rec("write on read end", s.write_(p[0], buf, 1));
        s.close_(p[0]); s.close_(q[1]);
    }});
    v.push_back({"eventfd counter semantics", [](Sys &s, Log &l) {
        int e = s.eventfd_(0, EFD_NONBLOCK);
        uint64_t v8 = 0; char small[4];
        l.rec("read zero counter", s.read_(e, &v8, 8));
        v8 = 3; l.rec("write 3", s.write_(e, &v8, 8));
        v8 = 4; l.rec("write 4", s.write_(e, &v8, 8));
        l.rec("short write", s.write_(e, small, 4));
        l.rec("short read", s.read_(e, small, 4));
        v8 = 0; l.rec("read", s.read_(e, &v8, 8)); l.rec("value", (long)v8);
        l.rec("read again", s.read_(e, &v8, 8));
        v8 = 0xffffffffffffffffULL; l.rec("write max", s.write_(e, &v8, 8));
        s.close_(e);
    }});
    v.push_back({"epoll_ctl errors", [](Sys &s, Log &l) {
        int ep = s.ep_create(); int p[2]; s.pipe_(p);
        l.rec("add", s.ep_ctl(ep, EPOLL_CTL_ADD, p[0], EPOLLIN, 1));
        l.rec("add again", s.ep_ctl(ep, EPOLL_CTL_ADD, p[0], EPOLLIN, 1));
        l.rec("mod", s.ep_ctl(ep, EPOLL_CTL_MOD, p[0], EPOLLIN, 2));
        l.rec("del", s.ep_ctl(ep, EPOLL_CTL_DEL, p[0], 0, 0));
        l.rec("del again", s.ep_ctl(ep, EPOLL_CTL_DEL, p[0], 0, 0));
        l.rec("mod missing", s.ep_ctl(ep, EPOLL_CTL_MOD, p[0], EPOLLIN, 2));
        l.rec("add closed fd", s.ep_ctl(ep, EPOLL_CTL_ADD, 9999, EPOLLIN, 1));
        l.rec("add on non-epoll", s.ep_ctl(p[1], EPOLL_CTL_ADD, p[0], EPOLLIN, 1));
        l.rec("add itself", s.ep_ctl(ep, EPOLL_CTL_ADD, ep, EPOLLIN, 1));
        l.rec("ctl on closed epfd", s.ep_ctl(9999, EPOLL_CTL_ADD, p[0], EPOLLIN, 1));
        std::vector<KEv> o; l.recset("wait on closed epfd", s.ep_wait(9999, o, 8), o);
        o.clear(); l.recset("wait on non-epoll", s.ep_wait(p[0], o, 8), o);
        s.close_(ep); s.close_(p[0]); s.close_(p[1]);
    }});
    v.push_back({"level-triggered readiness, one-shot, re-arm", [](Sys &s, Log &l) {
        int ep = s.ep_create(); int p[2], q[2]; s.pipe_(p); s.pipe_(q); s.nonblock(p[0]); s.nonblock(q[0]);
        s.ep_ctl(ep, EPOLL_CTL_ADD, p[0], EPOLLIN, 10);
        s.ep_ctl(ep, EPOLL_CTL_ADD, q[0], EPOLLIN | EPOLLONESHOT, 20);
        std::vector<KEv> o; l.recset("nothing ready", s.ep_wait(ep, o, 8), o);
        s.write_(p[1], "a", 1); s.write_(q[1], "b", 1);
        o.clear(); l.recset("both ready", s.ep_wait(ep, o, 8), o);
        o.clear(); l.recset("level stays, one-shot disarmed", s.ep_wait(ep, o, 8), o);
        l.rec("re-arm one-shot", s.ep_ctl(ep, EPOLL_CTL_MOD, q[0], EPOLLIN | EPOLLONESHOT, 21));
        o.clear(); l.recset("both again", s.ep_wait(ep, o, 8), o);
        char c; s.read_(p[0], &c, 1);
        o.clear(); l.recset("drained one", s.ep_wait(ep, o, 8), o);
        s.write_(p[1], "a", 1);
        o.clear(); l.recset("maxevents 1 on one ready", s.ep_wait(ep, o, 1), o);
        s.close_(ep); s.close_(p[0]); s.close_(p[1]); s.close_(q[0]); s.close_(q[1]);
    }});
    v.push_back({"close removes registration, dup keeps it, hang-up", [](Sys &s, Log &l) {
        int ep = s.ep_create(); int p[2]; s.pipe_(p);
        s.ep_ctl(ep, EPOLL_CTL_ADD, p[0], EPOLLIN, 5);
        s.write_(p[1], "a", 1);
        std::vector<KEv> o; l.recset("ready", s.ep_wait(ep, o, 8), o);
        int d = s.dup_(p[0]);
        l.rec("close registered number", s.close_(p[0]));
        o.clear(); l.recset("dup keeps the description registered", s.ep_wait(ep, o, 8), o);
        l.rec("del through closed number", s.ep_ctl(ep, EPOLL_CTL_DEL, p[0], 0, 0));
        l.rec("close the dup", s.close_(d));
        o.clear(); l.recset("gone with the last descriptor", s.ep_wait(ep, o, 8), o);
        int q[2]; s.pipe_(q);
        s.ep_ctl(ep, EPOLL_CTL_ADD, q[0], EPOLLIN, 6);
        s.close_(q[1]);
        o.clear(); l.recset("writer closed: hang-up", s.ep_wait(ep, o, 8), o);
        s.close_(q[0]); s.close_(p[1]); s.close_(ep);
    }});
    v.push_back({"timerfd one-shot, periodic count, disarm", [](Sys &s, Log &l) {
        int ep = s.ep_create();
        int t = s.timerfd_(TFD_NONBLOCK), u = s.timerfd_(TFD_NONBLOCK);
        s.ep_ctl(ep, EPOLL_CTL_ADD, t, EPOLLIN, 1); s.ep_ctl(ep, EPOLL_CTL_ADD, u, EPOLLIN, 2);
        uint64_t n = 0;
        l.rec("read unarmed", s.read_(t, &n, 8));
        l.rec("arm one-shot 2ms", s.settime(t, 2000000, 0));
        l.rec("arm periodic 2ms", s.settime(u, 2000000, 2000000));
        std::vector<KEv> o; l.recset("before expiry", s.ep_wait(ep, o, 8), o);
        s.pass_time(7000000);
        o.clear(); l.recset("after 7ms", s.ep_wait(ep, o, 8), o);
        l.rec("read one-shot", s.read_(t, &n, 8)); l.rec("count", (long)n);
        l.rec("read one-shot again", s.read_(t, &n, 8));
        l.rec("read periodic", s.read_(u, &n, 8)); l.rec("count (3 expirations in 7ms)", (long)n);
        l.rec("short read", s.read_(u, &n, 4));
        l.rec("disarm", s.settime(u, 0, 0));
        s.pass_time(5000000);
        o.clear(); l.recset("disarmed", s.ep_wait(ep, o, 8), o);
        l.rec("settime on a pipe", [&]() { int p[2]; s.pipe_(p); int r = s.settime(p[0], 1, 0); int e = errno; s.close_(p[0]); s.close_(p[1]); errno = e; return r; }());
        s.close_(t); s.close_(u); s.close_(ep);
    }});
    v.push_back({"eventfd in epoll", [](Sys &s, Log &l) {
        int ep = s.ep_create(); int e = s.eventfd_(0, EFD_NONBLOCK);
        s.ep_ctl(ep, EPOLL_CTL_ADD, e, EPOLLIN, 9);
        std::vector<KEv> o; l.recset("zero counter", s.ep_wait(ep, o, 8), o);
        uint64_t one = 1; s.write_(e, &one, 8);
        o.clear(); l.recset("after write", s.ep_wait(ep, o, 8), o);
        s.read_(e, &one, 8);
        o.clear(); l.recset("after read", s.ep_wait(ep, o, 8), o);
        s.close_(e); s.close_(ep);
    }});
    return v;
}

static std::vector<std::string> run_all(Sys &s, const char *only) {
    std::vector<std::string> all;
    for (auto &sc : scenarios()) {
        if (only && sc.first != only) continue;
        Log l; l.s = &s; l.b = s.base();
        sc.second(s, l);
        all.push_back("== " + sc.first);
        for (auto &x : l.lines) all.push_back(x);
        for (auto &x : l.notes) printf("note [%s] %s\n", dynamic_cast<RealSys *>(&s) ? "real" : "sim ", x.c_str());
    }
    return all;
}

int main() {
    RealSys real;
    std::vector<std::string> a = run_all(real, nullptr);
    Config c;
    run_begin(c);
    SimSys simsys;
    std::vector<std::string> b = run_all(simsys, nullptr);
    int bad = 0, steps = 0, nscen = 0;
    for (size_t i = 0; i < std::max(a.size(), b.size()); i++) {
        std::string x = i < a.size() ? a[i] : "(missing)", y = i < b.size() ? b[i] : "(missing)";
        if (x.rfind("== ", 0) == 0) nscen++; else steps++;
        if (x != y) { bad++; printf("MISMATCH line %zu\n  real: %s\n  sim : %s\n", i, x.c_str(), y.c_str()); }
    }
    printf("kernel-conformance: %d scenarios, %d compared results, %d mismatch(es)\n", nscen, steps, bad);
    return bad ? 1 : 0;
}
