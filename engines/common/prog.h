// Programs: a header of key/value knobs plus a flat list of integer-argument ops.
// Operands are interpreted modulo what exists, so deleting any op leaves a valid program
// (this is what makes delta debugging effective). The same text is the replay file.
#pragma once
#include <string>
#include <vector>
#include <map>
#include <sstream>
#include <cstdlib>

struct Op {
    std::string where;   // "D" = driver; "m<slot>.<cb>.<n>" = n-th invocation of a callback of module slot
    std::string name;
    std::vector<long> a;
    long arg(size_t i, long def = 0) const { return i < a.size() ? a[i] : def; }
};

struct Program {
    std::vector<std::pair<std::string, std::string>> hdr;
    std::vector<Op> ops;

    void set(const std::string &k, const std::string &v) {
        for (auto &kv : hdr) if (kv.first == k) { kv.second = v; return; }
        hdr.push_back({k, v});
    }
    void set(const std::string &k, long v) { set(k, std::to_string(v)); }
    void setd(const std::string &k, double v) { std::ostringstream o; o << v; set(k, o.str()); }
    std::string gets(const std::string &k, const std::string &def = "") const {
        for (auto &kv : hdr) if (kv.first == k) return kv.second;
        return def;
    }
    long get(const std::string &k, long def = 0) const {
        for (auto &kv : hdr) if (kv.first == k) return strtol(kv.second.c_str(), nullptr, 0);
        return def;
    }
    unsigned long getu(const std::string &k, unsigned long def = 0) const {
        for (auto &kv : hdr) if (kv.first == k) return strtoul(kv.second.c_str(), nullptr, 0);
        return def;
    }
    double getd(const std::string &k, double def = 0) const {
        for (auto &kv : hdr) if (kv.first == k) return strtod(kv.second.c_str(), nullptr);
        return def;
    }
    void add(const std::string &where, const std::string &name, std::initializer_list<long> args = {}) {
        Op o; o.where = where; o.name = name; o.a = args; ops.push_back(o);
    }
    std::string to_text() const {
        std::ostringstream o;
        for (auto &kv : hdr) o << kv.first << " " << kv.second << "\n";
        o << "---\n";
        for (auto &op : ops) {
            o << op.where << " " << op.name;
            for (long v : op.a) o << " " << v;
            o << "\n";
        }
        return o.str();
    }
    static Program parse(const std::string &text) {
        Program p;
        std::istringstream in(text);
        std::string line;
        bool body = false;
        while (std::getline(in, line)) {
            if (line.empty() || line[0] == '#') continue;
            if (line == "---") { body = true; continue; }
            std::istringstream ls(line);
            if (!body) {
                std::string k, v;
                ls >> k;
                std::getline(ls, v);
                size_t s = v.find_first_not_of(' ');
                p.hdr.push_back({k, s == std::string::npos ? "" : v.substr(s)});
            } else {
                Op op;
                ls >> op.where >> op.name;
                long x;
                while (ls >> x) op.a.push_back(x);
                if (!op.name.empty()) p.ops.push_back(op);
            }
        }
        return p;
    }
};
