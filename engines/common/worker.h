// Worker process: executes many seeded runs in-process and reports one line per run.
// Protocol on stdout (flushed after every line):
//   RUN <index> <seed>                  a run starts (so a crash is attributable)
//   R <index> <seed> <fp> <nontrivial> <statehash>
//   VIOL <prop> <sig> | <detail>        (then the process exits 3)
//   FOREIGN <prop> <sig> | <detail>     violation of a property this campaign does not decide (exit 4)
//   STATS <json>                        cumulative counters of this process
#pragma once
#include "../../sim/sim.h"
#include "prog.h"
#include <cstring>
#include <cstdio>
#include <ctime>
#include <fstream>
#include <iostream>
#include <unistd.h>
#include <sys/personality.h>
#include <sched.h>

struct RunResult {
    uint64_t fp = 0;
    bool nontrivial = false;
    uint64_t state_hash = 0;
};

struct Stats {
    uint64_t runs = 0, nontrivial = 0, sim_time_ns = 0, steps = 0, switches = 0, threads = 0;
    std::map<std::string, uint64_t> faults, probes, oracle_evals;
    void absorb_run() {
        using namespace sim;
        sim_time_ns += R->now - 1000000000ULL;
        steps += R->steps;
        switches += R->switches;
        threads += R->threads.size();
        for (auto &kv : R->ctr.faults) faults[kv.first] += kv.second;
        for (auto &kv : R->ctr.probes) probes[kv.first] += kv.second;
    }
    static void jmap(std::ostream &o, const char *name, const std::map<std::string, uint64_t> &m) {
        o << "\"" << name << "\":{";
        bool first = true;
        for (auto &kv : m) { if (!first) o << ","; first = false; o << "\"" << kv.first << "\":" << kv.second; }
        o << "}";
    }
    std::string json() const {
        std::ostringstream o;
        o << "{\"runs\":" << runs << ",\"nontrivial\":" << nontrivial << ",\"sim_time_ns\":" << sim_time_ns
          << ",\"steps\":" << steps << ",\"switches\":" << switches << ",\"threads\":" << threads << ",";
        jmap(o, "faults", faults); o << ",";
        jmap(o, "probes", probes); o << ",";
        jmap(o, "oracle_evals", oracle_evals);
        o << "}";
        return o.str();
    }
};
extern Stats g_stats;
static inline void oracle_eval(const char *clause, uint64_t n = 1) { g_stats.oracle_evals[clause] += n; }

struct Engine {
    virtual ~Engine() {}
    virtual Program generate(const std::string &campaign, uint64_t seed, bool thorough) = 0;
    virtual RunResult execute(const Program &p, bool trace) = 0;
};

static inline double now_s() {
    struct timespec ts;
    clock_gettime(CLOCK_MONOTONIC, &ts);
    return ts.tv_sec + ts.tv_nsec * 1e-9;
}

static std::string g_cur_property;

static inline void install_violation_filter(const std::string &property) {
    g_cur_property = property;
    sim::R->on_violation = [](const char *prop, const char *sig, const char *detail) {
        if (g_cur_property != prop) {
            printf("FOREIGN %s %s | %s\n", prop, sig, detail);
            fflush(stdout);
            _exit(4);
        }
    };
}

static inline int worker_main(int argc, char **argv, Engine &eng) {
    // address-space randomisation off: no run may depend on where things land
    if (!getenv("SIM_NO_REEXEC")) {
        int pers = personality(0xffffffff);
        if (pers != -1 && !(pers & ADDR_NO_RANDOMIZE)) {
            if (personality(pers | ADDR_NO_RANDOMIZE) != -1) {
                setenv("SIM_NO_REEXEC", "1", 1);
                execv("/proc/self/exe", argv);
            }
        }
    }
    std::string campaign, replay, tier = "quick";
    uint64_t seed_base = 1, start = 0, stride = 1, count = ~0ULL, gen_seed = 0;
    double budget = 1e18;
    bool trace = false, do_gen = false;
    int cpu = -1;
    for (int i = 1; i < argc; i++) {
        std::string a = argv[i];
        auto nx = [&]() { return std::string(i + 1 < argc ? argv[++i] : ""); };
        if (a == "--campaign") campaign = nx();
        else if (a == "--seed-base") seed_base = strtoull(nx().c_str(), 0, 0);
        else if (a == "--start") start = strtoull(nx().c_str(), 0, 0);
        else if (a == "--stride") stride = strtoull(nx().c_str(), 0, 0);
        else if (a == "--count") count = strtoull(nx().c_str(), 0, 0);
        else if (a == "--budget-s") budget = strtod(nx().c_str(), 0);
        else if (a == "--tier") tier = nx();
        else if (a == "--replay") replay = nx();
        else if (a == "--trace") trace = true;
        else if (a == "--gen") { do_gen = true; gen_seed = strtoull(nx().c_str(), 0, 0); }
        else if (a == "--cpu") cpu = atoi(nx().c_str());
        else { fprintf(stderr, "unknown arg %s\n", a.c_str()); return 2; }
    }
    if (cpu >= 0) {
        cpu_set_t set;
        CPU_ZERO(&set);
        CPU_SET(cpu, &set);
        sched_setaffinity(0, sizeof set, &set);
    }
    bool thorough = tier == "thorough";
    if (do_gen) {
        Program p = eng.generate(campaign, gen_seed, thorough);
        fputs(p.to_text().c_str(), stdout);
        return 0;
    }
    if (!replay.empty()) {
        std::ifstream in(replay);
        if (!in) { fprintf(stderr, "cannot open %s\n", replay.c_str()); return 2; }
        std::stringstream ss;
        ss << in.rdbuf();
        Program p = Program::parse(ss.str());
        printf("RUN 0 %lu\n", p.getu("seed"));
        fflush(stdout);
        RunResult r = eng.execute(p, trace);
        printf("R 0 %lu %016lx %d %016lx\n", p.getu("seed"), (unsigned long)r.fp, r.nontrivial ? 1 : 0, (unsigned long)r.state_hash);
        printf("STATS %s\n", g_stats.json().c_str());
        fflush(stdout);
        return 0;
    }
    double t0 = now_s();
    uint64_t done = 0;
    for (uint64_t i = start; done < count; i += stride, done++) {
        if (now_s() - t0 > budget) break;
        uint64_t seed = sim::mix64(sim::mix64(seed_base, sim::hash_str(campaign.c_str())), i) & 0x7fffffffffffULL;
        Program p = eng.generate(campaign, seed, thorough);
        printf("RUN %lu %lu\n", (unsigned long)i, (unsigned long)seed);
        fflush(stdout);
        RunResult r = eng.execute(p, false);
        g_stats.runs++;
        if (r.nontrivial) g_stats.nontrivial++;
        printf("R %lu %lu %016lx %d %016lx\n", (unsigned long)i, (unsigned long)seed, (unsigned long)r.fp, r.nontrivial ? 1 : 0, (unsigned long)r.state_hash);
        if (done % 256 == 255) printf("STATS %s\n", g_stats.json().c_str());
        fflush(stdout);
    }
    printf("STATS %s\n", g_stats.json().c_str());
    printf("END\n");
    fflush(stdout);
    return 0;
}
