#pragma once
#include "../common/worker.h"
#include <cstdint>
#include <cstring>
#include <string>
#include <vector>
#include <map>
#include <set>
#include <algorithm>

extern "C" {
#include <module/structs/map.h>
#include <module/structs/bst.h>
#include <module/structs/list.h>
#include <module/structs/queue.h>
#include <module/structs/stack.h>
#include <module/mem/mem.h>
void *sk_malloc(size_t n);
void *sk_calloc(size_t a, size_t b);
void sk_free(void *p);
int m_set_memhook(void *(*_malloc)(size_t), void *(*_calloc)(size_t, size_t), void (*_free)(void *));
}

#define VIOL(prop, sig, ...) sim::violation(prop, sig, __VA_ARGS__)

// arm / observe allocation faults around one operation
struct FaultScope {
    uint64_t before;
    explicit FaultScope(long pending) {
        before = sim::R->a.failed;
        sim::R->a.fail_at = pending;
    }
    bool fired() const { return sim::R->a.failed > before; }
    ~FaultScope() { sim::R->a.fail_at = -1; }
};

// value cells: a value is identified by its index; the pointer handed to containers is &cells[id]
extern char g_cells[1 << 20];
static inline void *cell(long id) { return &g_cells[id]; }
static inline long cell_id(const void *p) { return (long)((const char *)p - g_cells); }
static inline bool is_cell(const void *p) { return (const char *)p >= g_cells && (const char *)p < g_cells + sizeof(g_cells); }

RunResult run_map(const Program &p, bool trace);
Program gen_map(uint64_t seed, bool thorough);
RunResult run_mem(const Program &p, bool trace);
Program gen_mem(uint64_t seed, bool thorough);
RunResult run_bst(const Program &p, bool trace);
Program gen_bst(uint64_t seed, bool thorough);
RunResult run_qsl(const Program &p, bool trace);
Program gen_qsl(uint64_t seed, bool thorough);

static inline sim::Config base_cfg(const Program &p, bool trace) {
    sim::Config c;
    c.seed = p.getu("seed", 1);
    c.trace = trace;
    return c;
}
