// C12 direct driver: queue (FIFO), stack (LIFO), list (multiset with stable order) vs sequence models,
// iterator edits at the first / middle / last position followed by continued use.
#include "common.h"

namespace {

enum Kind { K_QUEUE = 0, K_STACK = 1, K_LIST = 2 };

struct Drv {
    int kind = K_QUEUE;
    m_queue_t *q = nullptr;
    m_stack_t *s = nullptr;
    m_list_t *l = nullptr;
    bool has_dtor = false, has_cmp = false;
    long cmp_mod = 5;
    std::vector<long> model;      // container order: queue head first; stack top first; list first first
    std::vector<long> dlog;
    long next_val = 16;
    long pending_fail = -1;
    uint64_t mutations = 0, itr_edits_first = 0, itr_edits_last = 0, itr_edits_mid = 0;
};
Drv *D;

void dtor_cb(void *v) {
    if (!is_cell(v)) VIOL("C12", "C12:dtor-foreign-pointer", "destructor called with a pointer that was never stored");
    D->dlog.push_back(cell_id(v));
}
// key-style comparator ("first parameter is userdata, second is list data"): the first argument is read
// as a lookup key, the second as an element, so it is NOT reflexive on element pointers - matching by the
// stored pointer itself has to work on its own.
long cmp_key(long data) { return data % D->cmp_mod; }
long cmp_elem(long elem) { return (elem / 3) % D->cmp_mod; }
int list_cmp(void *a, void *b) {
    return (int)(cmp_key(cell_id(a)) - cmp_elem(cell_id(b)));
}
bool list_match(long data, long elem) {
    return (D->has_cmp && cmp_key(data) == cmp_elem(elem)) || data == elem;
}

const char *kname() { return D->kind == K_QUEUE ? "queue" : D->kind == K_STACK ? "stack" : "list"; }

void expect_dlog(std::vector<long> exp, const char *opname, const std::vector<long> &optional = {}) {
    oracle_eval("C12.dtor-log");
    if (!D->has_dtor) exp.clear();
    std::vector<long> got = D->dlog;
    D->dlog.clear();
    for (long o : optional) {
        auto it = std::find(got.begin(), got.end(), o);
        if (it != got.end() && std::find(exp.begin(), exp.end(), o) == exp.end()) got.erase(it);
    }
    std::sort(exp.begin(), exp.end());
    std::sort(got.begin(), got.end());
    if (got == exp) return;
    std::string e, g;
    for (long x : exp) e += std::to_string(x) + " ";
    for (long x : got) g += std::to_string(x) + " ";
    for (long x : got) if (std::count(D->model.begin(), D->model.end(), x)) VIOL("C12", "C12:dtor-on-live-element", "%s %s: destructor ran on element %ld still in the container", kname(), opname, x);
    for (long x : got) if (std::count(got.begin(), got.end(), x) > 1) VIOL("C12", "C12:dtor-twice", "%s %s: element %ld destroyed twice", kname(), opname, x);
    for (long x : exp) if (!std::count(got.begin(), got.end(), x)) VIOL("C12", "C12:dtor-missing", "%s %s: dropped element %ld not destroyed (expected [%s] got [%s])", kname(), opname, x, e.c_str(), g.c_str());
    VIOL("C12", "C12:dtor-unexpected", "%s %s: expected destroyed [%s] got [%s] (an element handed back to the caller must not be destroyed)", kname(), opname, e.c_str(), g.c_str());
}

ssize_t c_len() {
    return D->kind == K_QUEUE ? m_queue_len(D->q) : D->kind == K_STACK ? m_stack_len(D->s) : m_list_len(D->l);
}


// ---- twin walk: two identical containers, the same iterator calls on both, plus - on the second only - calls that are refused.
// A refused call changes nothing: from then on both walks must yield the same elements, end together and leave equal containers.
struct Twin {
    int kind;
    m_queue_t *q = nullptr; m_stack_t *s = nullptr; m_list_t *l = nullptr;
    void *itr = nullptr;
    void make(int k, const std::vector<long> &vals) {
        kind = k;
        if (k == K_QUEUE) { q = m_queue_new(nullptr); for (long v : vals) m_queue_enqueue(q, cell(v)); }
        else if (k == K_STACK) { s = m_stack_new(nullptr); for (long v : vals) m_stack_push(s, cell(v)); }
        else { l = m_list_new(nullptr, nullptr); for (long v : vals) m_list_insert(l, cell(v)); }
    }
    void begin() { itr = kind == K_QUEUE ? (void *)m_queue_itr_new(q) : kind == K_STACK ? (void *)m_stack_itr_new(s) : (void *)m_list_itr_new(l); }
    void *get() { return !itr ? nullptr : kind == K_QUEUE ? m_queue_itr_get_data((m_queue_itr_t *)itr) : kind == K_STACK ? m_stack_itr_get_data((m_stack_itr_t *)itr) : m_list_itr_get_data((m_list_itr_t *)itr); }
    int remove() { return kind == K_QUEUE ? m_queue_itr_remove((m_queue_itr_t *)itr) : kind == K_STACK ? m_stack_itr_remove((m_stack_itr_t *)itr) : m_list_itr_remove((m_list_itr_t *)itr); }
    int set(void *v) { return kind == K_QUEUE ? m_queue_itr_set_data((m_queue_itr_t *)itr, v) : kind == K_STACK ? m_stack_itr_set_data((m_stack_itr_t *)itr, v) : m_list_itr_set_data((m_list_itr_t *)itr, v); }
    int insert(void *v) { return kind == K_LIST ? m_list_itr_insert((m_list_itr_t *)itr, v) : -1; }
    void next() { if (!itr) return; if (kind == K_QUEUE) m_queue_itr_next((m_queue_itr_t **)&itr); else if (kind == K_STACK) m_stack_itr_next((m_stack_itr_t **)&itr); else m_list_itr_next((m_list_itr_t **)&itr); }
    ssize_t len() { return kind == K_QUEUE ? m_queue_len(q) : kind == K_STACK ? m_stack_len(s) : m_list_len(l); }
    std::vector<long> content() {
        std::vector<long> out;
        if (len() <= 0) return out;
        if (kind == K_QUEUE) for (m_queue_itr_t *i = m_queue_itr_new(q); i; m_queue_itr_next(&i)) out.push_back(is_cell(m_queue_itr_get_data(i)) ? cell_id(m_queue_itr_get_data(i)) : -1);
        else if (kind == K_STACK) for (m_stack_itr_t *i = m_stack_itr_new(s); i; m_stack_itr_next(&i)) out.push_back(is_cell(m_stack_itr_get_data(i)) ? cell_id(m_stack_itr_get_data(i)) : -1);
        else for (m_list_itr_t *i = m_list_itr_new(l); i; m_list_itr_next(&i)) out.push_back(is_cell(m_list_itr_get_data(i)) ? cell_id(m_list_itr_get_data(i)) : -1);
        return out;
    }
    void drop() {
        if (itr) sk_free(itr);
        itr = nullptr;
        if (q) m_queue_free(&q);
        if (s) m_stack_free(&s);
        if (l) m_list_free(&l);
    }
};

void twin_walk(int kind, uint64_t seed) {
    sim::Rng r(seed);
    oracle_eval("C12.refused-call-changes-nothing");
    std::vector<long> vals;
    int n = (int)r.range(1, 5);
    for (int i = 0; i < n; i++) vals.push_back(D->next_val++);
    Twin a, b;
    a.make(kind, vals); b.make(kind, vals);
    a.begin(); b.begin();
    int refused = 0;
    std::string script;
    for (int step = 0; step < 14 && (a.itr || b.itr); step++) {
        if (!a.itr != !b.itr) VIOL("C12", "C12:refused-call-changed-the-walk", "%s twin walk: one iterator ended, the other did not (after %d refused call(s); script %s)", kind == K_QUEUE ? "queue" : kind == K_STACK ? "stack" : "list", refused, script.c_str());
        void *ga = a.get(), *gb = b.get();
        if (ga != gb) VIOL("C12", "C12:refused-call-changed-the-walk", "%s twin walk: the iterators stand on different elements (%ld vs %ld) after %d refused call(s); script %s", kind == K_QUEUE ? "queue" : kind == K_STACK ? "stack" : "list",
                           is_cell(ga) ? cell_id(ga) : -1, is_cell(gb) ? cell_id(gb) : -1, refused, script.c_str());
        // an extra call on the second walk that must be refused: a NULL value, or a removal where there is no element
        if (r.chance(0.5)) {
            int which = (int)r.below(3);
            int rc;
            if (which == 0) { rc = b.set(nullptr); script += "b.set(NULL) "; }
            else if (which == 1 && kind == K_LIST) { rc = b.insert(nullptr); script += "b.insert(NULL) "; }
            else if (!gb) { rc = b.remove(); script += "b.remove(nothing) "; }
            else rc = -1;
            if (rc == 0) { a.drop(); b.drop(); return; }   // accepted: decided elsewhere (see the itr op), nothing to compare
            refused++;
            sim::R->ctr.probe("twin_refused_call");
        }
        int act = (int)r.below(10);
        int ra = 0, rb = 0;
        if (act < 3) { ra = a.remove(); rb = b.remove(); script += "remove "; }
        else if (act < 5 && ga) { long nv = D->next_val++; ra = a.set(cell(nv)); rb = b.set(cell(nv)); script += "set "; }
        else if (act < 7 && kind == K_LIST) { long nv = D->next_val++; ra = a.insert(cell(nv)); rb = b.insert(cell(nv)); script += "insert "; }
        else { a.next(); b.next(); script += "next "; }
        if (ra != rb) VIOL("C12", "C12:refused-call-changed-the-walk", "%s twin walk: the same call returned %d on one walk and %d on the other after %d refused call(s); script %s", kind == K_QUEUE ? "queue" : kind == K_STACK ? "stack" : "list", ra, rb, refused, script.c_str());
    }
    if (a.itr) { sk_free(a.itr); a.itr = nullptr; }
    if (b.itr) { sk_free(b.itr); b.itr = nullptr; }
    if (a.len() != b.len() || a.content() != b.content())
        VIOL("C12", "C12:refused-call-changed-the-container", "%s twin walk: the containers differ after %d refused call(s); script %s", kind == K_QUEUE ? "queue" : kind == K_STACK ? "stack" : "list", refused, script.c_str());
    a.drop(); b.drop();
}

// read-only walk with a fresh iterator
std::vector<long> walk() {
    std::vector<long> out;
    ssize_t cl = c_len();
    size_t guard = std::max(D->model.size(), (size_t)(cl > 0 ? cl : 0)) + 8;
    if (D->kind == K_QUEUE) {
        for (m_queue_itr_t *i = m_queue_itr_new(D->q); i; m_queue_itr_next(&i)) {
            void *v = m_queue_itr_get_data(i);
            out.push_back(is_cell(v) ? cell_id(v) : -1);
            if (out.size() > guard) { sk_free(i); break; }
        }
    } else if (D->kind == K_STACK) {
        for (m_stack_itr_t *i = m_stack_itr_new(D->s); i; m_stack_itr_next(&i)) {
            void *v = m_stack_itr_get_data(i);
            out.push_back(is_cell(v) ? cell_id(v) : -1);
            if (out.size() > guard) { sk_free(i); break; }
        }
    } else {
        for (m_list_itr_t *i = m_list_itr_new(D->l); i; m_list_itr_next(&i)) {
            void *v = m_list_itr_get_data(i);
            out.push_back(is_cell(v) ? cell_id(v) : -1);
            if (out.size() > guard) { sk_free(i); break; }
        }
    }
    return out;
}

std::string seq_str(const std::vector<long> &v) {
    std::string s;
    for (long x : v) s += std::to_string(x) + " ";
    return s;
}

void verify(const char *after) {
    oracle_eval("C12.model-equality");
    ssize_t len = c_len();
    if (len != (ssize_t)D->model.size()) VIOL("C12", "C12:len-mismatch", "%s after %s: len=%zd model=%zu", kname(), after, len, D->model.size());
    std::vector<long> got = walk();
    if (got != D->model) VIOL("C12", "C12:content-mismatch", "%s after %s: iterator yields [%s] model [%s]", kname(), after, seq_str(got).c_str(), seq_str(D->model).c_str());
    if (D->kind != K_LIST) {
        void *pk = D->kind == K_QUEUE ? m_queue_peek(D->q) : m_stack_peek(D->s);
        if (D->model.empty()) { if (pk) VIOL("C12", "C12:peek-ghost", "%s peek on empty container is not NULL", kname()); }
        else if (pk != cell(D->model.front())) VIOL("C12", "C12:peek-wrong", "%s peek returned wrong element", kname());
    }
}

void do_new(int kind, int dtor, int cmp) {
    D->kind = kind % 3;
    D->has_dtor = dtor != 0;
    D->has_cmp = D->kind == K_LIST && cmp != 0;
    FaultScope fs(D->pending_fail);
    D->pending_fail = -1;
    void *h;
    if (D->kind == K_QUEUE) h = D->q = m_queue_new(dtor ? dtor_cb : nullptr);
    else if (D->kind == K_STACK) h = D->s = m_stack_new(dtor ? dtor_cb : nullptr);
    else h = D->l = m_list_new(D->has_cmp ? list_cmp : nullptr, dtor ? dtor_cb : nullptr);
    if (!h && !fs.fired()) VIOL("C12", "C12:new-failed", "constructor returned NULL");
    D->model.clear();
    sim::tr("qsl_new", D->kind, dtor, cmp);
}
bool alive() { return D->kind == K_QUEUE ? D->q != nullptr : D->kind == K_STACK ? D->s != nullptr : D->l != nullptr; }
void do_free() {
    if (!alive()) return;
    std::vector<long> exp = D->model;
    int rc;
    if (D->kind == K_QUEUE) rc = m_queue_free(&D->q);
    else if (D->kind == K_STACK) rc = m_stack_free(&D->s);
    else rc = m_list_free(&D->l);
    if (rc != 0 || alive()) VIOL("C12", "C12:free-failed", "%s free rc=%d", kname(), rc);
    D->model.clear();
    expect_dlog(exp, "free");
}

void note_pos(size_t idx, size_t n) {
    if (idx == 0) D->itr_edits_first++;
    if (idx + 1 == n) D->itr_edits_last++;
    if (idx > 0 && idx + 1 < n) D->itr_edits_mid++;
}

} // namespace

RunResult run_qsl(const Program &p, bool trace) {
    sim::run_begin(base_cfg(p, trace));
    install_violation_filter("C12");
    m_set_memhook(sk_malloc, sk_calloc, sk_free);
    Drv drv;
    D = &drv;
    D->cmp_mod = std::max(2L, p.get("cmpmod", 5));
    do_new((int)p.get("kind"), (int)p.get("dtor", 1), (int)p.get("cmp", 0));
    for (const Op &op : p.ops) {
        const std::string &n = op.name;
        if (n == "fail") { D->pending_fail = 0; continue; }
        if (n == "new") { do_free(); do_new((int)op.arg(0), (int)op.arg(1), (int)op.arg(2)); continue; }
        if (!alive()) { D->pending_fail = -1; continue; }
        if (n == "add") {
            long v = D->next_val++;
            int rc;
            bool fired;
            std::vector<long> before = D->model;
            {
                FaultScope fs(D->pending_fail);
                D->pending_fail = -1;
                if (D->kind == K_QUEUE) rc = m_queue_enqueue(D->q, cell(v));
                else if (D->kind == K_STACK) rc = m_stack_push(D->s, cell(v));
                else rc = m_list_insert(D->l, cell(v));
                fired = fs.fired();
            }
            sim::tr("qsl_add", D->kind, rc);
            if (rc == 0) {
                D->mutations++;
                if (D->kind == K_QUEUE) D->model.push_back(v);
                else if (D->kind == K_STACK) D->model.insert(D->model.begin(), v);
                else {
                    // insertion position is unconstrained: the other elements keep their relative order
                    std::vector<long> got = walk();
                    std::vector<long> rest;
                    int found = 0;
                    for (long x : got) { if (x == v) found++; else rest.push_back(x); }
                    if (found != 1 || rest != before) VIOL("C12", "C12:list-insert-order", "list after insert [%s], before [%s]", seq_str(got).c_str(), seq_str(before).c_str());
                    D->model = got;
                }
            } else if (!fired) {
                VIOL("C12", "C12:add-refused", "%s insertion returned %d without allocation failure", kname(), rc);
            }
            expect_dlog({}, "add");
        } else if (n == "take") {
            if (D->kind == K_LIST) continue;
            void *got = D->kind == K_QUEUE ? m_queue_dequeue(D->q) : m_stack_pop(D->s);
            sim::tr("qsl_take", D->kind, got ? 1 : 0);
            oracle_eval("C12.order-discipline");
            if (D->model.empty()) { if (got) VIOL("C12", "C12:take-ghost", "%s returned an element from an empty container", kname()); }
            else {
                if (got != cell(D->model.front())) VIOL("C12", D->kind == K_QUEUE ? "C12:fifo-order" : "C12:lifo-order", "%s returned %ld, expected %ld", kname(), is_cell(got) ? cell_id(got) : -1, D->model.front());
                D->model.erase(D->model.begin());
                D->mutations++;
            }
            expect_dlog({}, "take");
        } else if (n == "drop") {
            std::vector<long> exp;
            int rc;
            if (D->kind == K_LIST) {
                // remove by value: an element of the model (or an absent one)
                long v;
                if (!D->model.empty() && op.arg(1) % 4 != 0) v = D->model[((op.arg(0) % (long)D->model.size()) + D->model.size()) % D->model.size()];
                else v = 8 + (op.arg(0) & 7);   // never stored as such; may compare equal under the comparator
                rc = m_list_remove(D->l, cell(v));
                size_t i = 0;
                for (; i < D->model.size(); i++) if (list_match(v, D->model[i])) break;
                if (i < D->model.size()) {
                    if (rc != 0) VIOL("C12", "C12:remove-failed", "list remove of a matching element returned %d", rc);
                    exp.push_back(D->model[i]);
                    D->model.erase(D->model.begin() + i);
                    D->mutations++;
                } else if (rc >= 0) {
                    VIOL("C12", "C12:remove-absent-ok", "list remove without a matching element returned %d", rc);
                }
            } else {
                rc = D->kind == K_QUEUE ? m_queue_remove(D->q) : m_stack_remove(D->s);
                if (!D->model.empty()) {
                    if (rc != 0) VIOL("C12", "C12:remove-failed", "%s remove returned %d", kname(), rc);
                    exp.push_back(D->model.front());
                    D->model.erase(D->model.begin());
                    D->mutations++;
                } else if (rc >= 0) {
                    VIOL("C12", "C12:remove-absent-ok", "%s remove on empty container returned %d", kname(), rc);
                }
            }
            sim::tr("qsl_drop", D->kind, rc);
            expect_dlog(exp, "remove");
        } else if (n == "find") {
            if (D->kind != K_LIST) continue;
            long v;
            if (!D->model.empty() && op.arg(1) % 4 != 0) v = D->model[((op.arg(0) % (long)D->model.size()) + D->model.size()) % D->model.size()];
            else v = 8 + (op.arg(0) & 7);
            void *got = m_list_find(D->l, cell(v));
            size_t i = 0;
            for (; i < D->model.size(); i++) if (list_match(v, D->model[i])) break;
            oracle_eval("C12.list-find");
            if (i < D->model.size()) { if (got != cell(D->model[i])) VIOL("C12", "C12:find-wrong", "list find did not return the first matching element"); }
            else if (got) VIOL("C12", "C12:find-ghost", "list find returned an element although none matches");
        } else if (n == "clear") {
            std::vector<long> exp = D->model;
            bool fired;
            {
                FaultScope fs(D->pending_fail);
                D->pending_fail = -1;
                if (D->kind == K_QUEUE) m_queue_clear(D->q);
                else if (D->kind == K_STACK) m_stack_clear(D->s);
                else m_list_clear(D->l);
                fired = fs.fired();
            }
            sim::tr("qsl_clear", D->kind);
            if (fired && c_len() != 0) expect_dlog({}, "clear");
            else { D->model.clear(); expect_dlog(exp, "clear"); }
        } else if (n == "itr") {
            sim::Rng r(sim::mix64(p.getu("seed"), op.arg(0) + 9));
            int rm_pct = (int)(op.arg(1) % 101), set_pct = (int)(op.arg(2) % 101), ins_pct = D->kind == K_LIST ? (int)(op.arg(3) % 101) : 0;
            long force_pos = op.arg(4, -1);   // >=0: force a removal at this position (0 first, 1 last, 2 middle)
            int again_pct = (int)(op.arg(5, 0) % 101);   // queue/stack: chance of another edit right after a removal, before the iterator moves on
            sim::Rng r2(sim::mix64(p.getu("seed"), op.arg(0) + 177));
            bool loose = false;
            std::vector<long> start = D->model, visited, removed, replaced, inserted;
            std::vector<long> expect = D->model;   // expected content, edited in place
            size_t n0 = start.size();
            void *itr = nullptr;
            bool fired;
            {
                FaultScope fs(D->pending_fail);
                D->pending_fail = -1;
                if (D->kind == K_QUEUE) itr = m_queue_itr_new(D->q);
                else if (D->kind == K_STACK) itr = m_stack_itr_new(D->s);
                else itr = m_list_itr_new(D->l);
                fired = fs.fired();
            }
            if (!itr && n0 && !fired) VIOL("C12", "C12:itr-new-null", "%s iterator on non-empty container is NULL", kname());
            if (itr && !n0) VIOL("C12", "C12:itr-ghost", "%s iterator on empty container", kname());
            size_t idx = 0;       // index into 'start' of the element under the iterator
            size_t epos = 0;      // index into 'expect'
            bool any_insert = false;
            size_t first_insert_idx = 0;
            std::map<long, long> ins_at;
            size_t guard = 0;
            while (itr) {
                if (guard++ > (n0 + inserted.size()) * 2 + 8) VIOL("C12", "C12:itr-endless", "%s iterator does not terminate", kname());
                void *v = D->kind == K_QUEUE ? m_queue_itr_get_data((m_queue_itr_t *)itr) : D->kind == K_STACK ? m_stack_itr_get_data((m_stack_itr_t *)itr) : m_list_itr_get_data((m_list_itr_t *)itr);
                long id = is_cell(v) ? cell_id(v) : -1;
                visited.push_back(id);
                if (!any_insert && !loose) {
                    if (idx >= n0 || id != start[idx]) VIOL("C12", "C12:itr-order", "%s iterator yielded %ld at position %zu, container order is [%s]", kname(), id, idx, seq_str(start).c_str());
                }
                int a = loose ? 1000 : (int)r.below(100);
                bool forced = false;
                if (force_pos >= 0 && !any_insert && !loose) {
                    size_t want = force_pos % 3 == 0 ? 0 : force_pos % 3 == 1 ? n0 - 1 : n0 / 2;
                    forced = idx == want;
                }
                if (!any_insert && (forced || a < rm_pct)) {
                    int rc = D->kind == K_QUEUE ? m_queue_itr_remove((m_queue_itr_t *)itr) : D->kind == K_STACK ? m_stack_itr_remove((m_stack_itr_t *)itr) : m_list_itr_remove((m_list_itr_t *)itr);
                    if (rc != 0) VIOL("C12", "C12:itr-remove-failed", "%s iterator remove rc=%d", kname(), rc);
                    removed.push_back(id);
                    expect.erase(expect.begin() + epos);
                    note_pos(idx, n0);
                    D->mutations++;
                    // queue / stack: there is no current element until the iterator moves on. An edit attempted now is either refused (nothing
                    // changes) or acts on the element the walk yields next - never on anything else, and not at all when nothing is left to visit
                    if (D->kind != K_LIST && (int)r2.below(100) < again_pct) {
                        bool do_set = r2.below(2) == 0;
                        long nv = do_set ? D->next_val++ : 0;
                        sim::R->ctr.probe(do_set ? "itr_set_right_after_remove" : "itr_remove_right_after_remove");
                        int rc2 = D->kind == K_QUEUE ? (do_set ? m_queue_itr_set_data((m_queue_itr_t *)itr, cell(nv)) : m_queue_itr_remove((m_queue_itr_t *)itr))
                                                     : (do_set ? m_stack_itr_set_data((m_stack_itr_t *)itr, cell(nv)) : m_stack_itr_remove((m_stack_itr_t *)itr));
                        if (rc2 == 0) {
                            if (epos >= expect.size()) VIOL("C12", "C12:itr-edit-nothing-ok", "%s iterator %s right after removing the last element of the walk returned 0", kname(), do_set ? "set" : "remove");
                            if (do_set) { replaced.push_back(expect[epos]); expect[epos] = nv; }
                            else { removed.push_back(expect[epos]); expect.erase(expect.begin() + epos); }
                            loose = true;   // (what the walk yields after an accepted edit of this kind is not ours to say)
                        }
                    }
                    // list: the iterator now stands on the following element; it may be removed right away, without a 'next' in between
                    while (D->kind == K_LIST && idx + 1 < n0 && r.below(100) < 35) {
                        void *v2 = m_list_itr_get_data((m_list_itr_t *)itr);
                        long id2 = is_cell(v2) ? cell_id(v2) : -1;
                        if (id2 != start[idx + 1]) VIOL("C12", "C12:itr-order", "list iterator stands on %ld after removing position %zu, container order is [%s]", id2, idx, seq_str(start).c_str());
                        int rc2 = m_list_itr_remove((m_list_itr_t *)itr);
                        if (rc2 != 0) VIOL("C12", "C12:itr-remove-failed", "list iterator remove (second in a row) rc=%d", rc2);
                        idx++;
                        visited.push_back(id2);
                        removed.push_back(id2);
                        expect.erase(expect.begin() + epos);
                        note_pos(idx, n0);
                        sim::R->ctr.probe("list_itr_consecutive_removals");
                    }
                } else if (!any_insert && a < rm_pct + set_pct) {
                    // a NULL replacement cannot be told from "no element" by get/peek/pop afterwards: it is refused (and changes nothing)
                    if (r2.below(100) < (uint64_t)again_pct / 2) {
                        int rcn = D->kind == K_QUEUE ? m_queue_itr_set_data((m_queue_itr_t *)itr, nullptr) : D->kind == K_STACK ? m_stack_itr_set_data((m_stack_itr_t *)itr, nullptr) : m_list_itr_set_data((m_list_itr_t *)itr, nullptr);
                        sim::R->ctr.probe("itr_set_null");
                        if (rcn == 0) VIOL("C12", "C12:itr-set-null-accepted", "%s iterator set with a NULL value returned 0", kname());
                    }
                    long nv = D->next_val++;
                    int rc = D->kind == K_QUEUE ? m_queue_itr_set_data((m_queue_itr_t *)itr, cell(nv)) : D->kind == K_STACK ? m_stack_itr_set_data((m_stack_itr_t *)itr, cell(nv)) : m_list_itr_set_data((m_list_itr_t *)itr, cell(nv));
                    if (rc != 0) VIOL("C12", "C12:itr-set-failed", "%s iterator set rc=%d", kname(), rc);
                    replaced.push_back(id);
                    expect[epos] = nv;
                    epos++;
                    note_pos(idx, n0);
                } else if (inserted.size() < 3 && a < rm_pct + set_pct + ins_pct) {
                    long nv = D->next_val++;
                    int rc = m_list_itr_insert((m_list_itr_t *)itr, cell(nv));
                    if (rc != 0) VIOL("C12", "C12:itr-insert-failed", "list iterator insert rc=%d", rc);
                    inserted.push_back(nv);
                    if (!any_insert) first_insert_idx = idx;
                    ins_at[id]++;   // (an insert makes the walk yield the current element once more)
                    any_insert = true;   // what the iterator yields right afterwards (the inserted element, the current one again) is not constrained
                } else if (any_insert && D->kind == K_LIST && id >= 0 && !std::count(inserted.begin(), inserted.end(), id) && !std::count(removed.begin(), removed.end(), id) &&
                           (int)r.below(100) < rm_pct / 2) {
                    // a removal later in a walk that inserted earlier: the element goes, and every element behind it is still visited once
                    int rc = m_list_itr_remove((m_list_itr_t *)itr);
                    if (rc != 0) VIOL("C12", "C12:itr-remove-failed", "list iterator remove (after an insert) rc=%d", rc);
                    removed.push_back(id);
                    auto pos = std::find(expect.begin(), expect.end(), id);
                    if (pos != expect.end()) expect.erase(pos);
                    D->mutations++;
                    sim::R->ctr.probe("list_itr_remove_after_insert");
                } else {
                    epos++;
                }
                idx++;
                if (D->kind == K_QUEUE) m_queue_itr_next((m_queue_itr_t **)&itr);
                else if (D->kind == K_STACK) m_stack_itr_next((m_stack_itr_t **)&itr);
                else m_list_itr_next((m_list_itr_t **)&itr);
            }
            sim::tr("qsl_itr", D->kind, (long)visited.size(), (long)removed.size());
            oracle_eval("C12.itr-visit-once");
            if (!any_insert && !loose && !(fired && visited.empty()) && visited.size() != n0)
                VIOL("C12", "C12:itr-missed", "%s iterator yielded %zu of %zu elements", kname(), visited.size(), n0);
            if (any_insert) {
                // elements that were still ahead when the first insert happened are each visited exactly once, whatever was removed meanwhile
                for (size_t k = first_insert_idx + 1; k < n0; k++) {
                    long cnt = std::count(visited.begin(), visited.end(), start[k]);
                    long want = 1 + (ins_at.count(start[k]) ? ins_at[start[k]] : 0);
                    if (cnt != want)
                        VIOL("C12", cnt < want ? "C12:itr-missed:after-insert" : "C12:itr-twice:after-insert", "list iterator yielded element %ld (position %zu, behind an iterator insert at position %zu) %ld time(s), %ld expected; order was [%s]",
                             start[k], k, first_insert_idx, cnt, want, seq_str(start).c_str());
                }
            }
            if (!any_insert) {
                D->model = expect;
            } else {
                // content check only: inserted elements somewhere, everything else as expected, order of the rest preserved
                std::vector<long> got = walk(), rest;
                for (long x : got) if (!std::count(inserted.begin(), inserted.end(), x)) rest.push_back(x);
                std::vector<long> exp_rest;
                for (long x : expect) exp_rest.push_back(x);
                // elements after the insertion point were not edited (any_insert stops edits), so expect is final
                if (rest != exp_rest || got.size() != rest.size() + inserted.size())
                    VIOL("C12", "C12:list-itr-insert-content", "list after iterator insert [%s], expected [%s] plus %zu inserted", seq_str(got).c_str(), seq_str(exp_rest).c_str(), inserted.size());
                D->model = got;
                D->mutations++;
            }
            expect_dlog(removed, "iterator", replaced);
        } else if (n == "itr_twin") {
            twin_walk((int)(op.arg(1) % 3), sim::mix64(p.getu("seed"), (uint64_t)op.arg(0) + 991));
        } else if (n == "free") {
            int k = D->kind, d = D->has_dtor, c = D->has_cmp;
            do_free();
            do_new(k, d, c);
        }
        if (alive()) verify(n.c_str());
    }
    do_free();
    oracle_eval("C12.no-leak");
    if (sim::R->a.outstanding() != 0) VIOL("C12", "C12:leak", "%zu allocation(s) outstanding after free", sim::R->a.outstanding());
    if (D->itr_edits_first) sim::R->ctr.probe("itr_edit_at_first", D->itr_edits_first);
    if (D->itr_edits_last) sim::R->ctr.probe("itr_edit_at_last", D->itr_edits_last);
    if (D->itr_edits_mid) sim::R->ctr.probe("itr_edit_in_middle", D->itr_edits_mid);
    RunResult rr;
    rr.fp = sim::R->fp;
    rr.nontrivial = D->mutations >= 3;
    rr.state_hash = sim::mix64(p.get("kind"), sim::mix64(D->itr_edits_last > 0, D->mutations > 16 ? 16 : D->mutations));
    g_stats.absorb_run();
    sim::run_end();
    return rr;
}

Program gen_qsl(uint64_t seed, bool thorough) {
    sim::Rng r = sim::fork_rng(seed, "gen");
    Program p;
    p.set("property", "C12");
    p.set("engine", "simstructs");
    p.set("campaign", "C12");
    p.set("seed", (long)seed);
    int kind = (int)r.below(3);
    p.set("kind", kind);
    p.set("dtor", r.chance(0.7) ? 1 : 0);
    p.set("cmp", r.chance(0.5) ? 1 : 0);
    p.set("cmpmod", (long)r.range(2, 7));
    bool faults = r.chance(0.2);
    int nops = (int)r.range(3, thorough ? 90 : 36);
    int w[] = {34, 16, 10, 18, 6, 2, 2, 1};   // add take drop itr find clear free new
    if (kind == K_LIST) { w[1] = 0; w[2] = 18; }
    else w[4] = 0;
    for (int i = 0; i < nops; i++) {
        if (faults && r.chance(0.1)) p.add("D", "fail");
        switch (r.weighted(w, 8)) {
        case 0: p.add("D", "add"); break;
        case 1: p.add("D", "take"); break;
        case 2: p.add("D", "drop", {(long)r.below(64), (long)r.below(8)}); break;
        case 3: p.add("D", "itr", {(long)r.below(100000), (long)(r.chance(0.6) ? r.below(60) : 0), (long)(r.chance(0.3) ? r.below(40) : 0),
                                   (long)(r.chance(0.25) ? r.below(30) : 0), r.chance(0.35) ? (long)r.below(3) : -1, (long)(r.chance(0.3) ? r.below(101) : 0)}); break;
        case 4: if (r.chance(0.4)) { p.add("D", "itr_twin", {(long)r.below(100000), (long)r.below(3)}); break; }
                p.add("D", "find", {(long)r.below(64), (long)r.below(8)}); break;
        case 5: p.add("D", "clear"); break;
        case 6: p.add("D", "free"); break;
        case 7: p.add("D", "new", {(long)r.below(3), (long)r.below(2), (long)r.below(2)}); break;
        }
    }
    return p;
}
