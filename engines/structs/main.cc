// simstructs: direct drivers for the containers and the ref-counted memory (C05, C10, C11, C12).
#include "common.h"

Stats g_stats;
char g_cells[1 << 20];

struct StructsEngine : Engine {
    Program generate(const std::string &campaign, uint64_t seed, bool thorough) override {
        if (campaign == "C05") return gen_map(seed, thorough);
        if (campaign == "C10") return gen_mem(seed, thorough);
        if (campaign == "C11") return gen_bst(seed, thorough);
        if (campaign == "C12") return gen_qsl(seed, thorough);
        fprintf(stderr, "simstructs: unknown campaign %s\n", campaign.c_str());
        _exit(2);
    }
    RunResult execute(const Program &p, bool trace) override {
        std::string c = p.gets("campaign");
        if (c == "C05") return run_map(p, trace);
        if (c == "C10") return run_mem(p, trace);
        if (c == "C11") return run_bst(p, trace);
        if (c == "C12") return run_qsl(p, trace);
        fprintf(stderr, "simstructs: unknown campaign %s\n", c.c_str());
        _exit(2);
    }
};

extern "C" const char *__asan_default_options() { return "exitcode=77:detect_leaks=0:abort_on_error=0:allocator_may_return_null=1:handle_segv=1:detect_stack_use_after_return=0"; }
extern "C" const char *__ubsan_default_options() { return "print_stacktrace=1:halt_on_error=1:exitcode=77"; }

int main(int argc, char **argv) {
    StructsEngine e;
    return worker_main(argc, argv, e);
}
