// C10 direct driver: reference-counted blocks vs a shadow count, destructor-once, alignment, size.
#include "common.h"
#include <cstddef>

namespace {

struct Blk {
    void *p = nullptr;
    size_t size = 0;
    long shadow = 0;        // references the harness believes exist
    int dtor_kind = 0;      // 0 none, 1 logging, 2 logging + drops children
    int dtor_runs = 0;
    std::vector<int> children;   // indices of blocks this block's destructor drops one reference of
    uint8_t pattern = 0;
};
struct Drv {
    std::vector<Blk> blks;
    long pending_fail = -1;
    uint64_t news = 0, drops_to_zero = 0, nested = 0;
    bool in_dtor_of_dead_check = false;
};
Drv *D;

// a zero-sized block may legitimately be a one-past-the-end pointer of its allocation
bool blk_live(const void *p) { auto b = sim::R->a.find_incl(p); return b && !b->freed; }
bool blk_freed(const void *p) { auto b = sim::R->a.find_incl(p); return b && b->freed; }

int find_blk(void *p) {
    for (size_t i = 0; i < D->blks.size(); i++) if (D->blks[i].p == p) return (int)i;
    return -1;
}

void check_pattern(Blk &b, const char *when) {
    const uint8_t *d = (const uint8_t *)b.p;
    for (size_t i = 0; i < b.size; i++)
        if (d[i] != (uint8_t)(b.pattern + i)) VIOL("C10", "C10:content-corrupted", "%s: byte %zu of a live block of %zu bytes changed", when, i, b.size);
}

void drop_ref(int idx);

void dtor_cb(void *src) {
    int i = find_blk(src);
    if (i < 0) VIOL("C10", "C10:dtor-foreign-pointer", "destructor called with a pointer that is no live block");
    Blk &b = D->blks[i];
    b.dtor_runs++;
    if (b.dtor_runs > 1) VIOL("C10", "C10:dtor-twice", "destructor ran %d times on one block", b.dtor_runs);
    if (b.shadow != 0) VIOL("C10", "C10:dtor-while-referenced", "destructor ran while %ld references remain", b.shadow);
    if (!blk_live(src)) VIOL("C10", "C10:dtor-on-freed", "destructor ran on memory already returned to the allocator");
    check_pattern(b, "in destructor");   // block must still be valid inside its destructor
    size_t sz = m_mem_size(src);         // ... and still answers for its size
    if (sz != b.size) VIOL("C10", "C10:size-mismatch:in-destructor", "m_mem_size=%zu inside the block's destructor, requested=%zu", sz, b.size);
    if (b.dtor_kind == 2) {
        for (int c : b.children) { D->nested++; drop_ref(c); }
    }
}

void after_zero(int idx) {
    Blk &b = D->blks[idx];
    oracle_eval("C10.freed-iff-zero");
    D->drops_to_zero++;
    if (b.dtor_kind && b.dtor_runs != 1) VIOL("C10", "C10:dtor-missing", "last reference dropped but destructor ran %d times", b.dtor_runs);
    if (!blk_freed(b.p)) VIOL("C10", "C10:not-freed-at-zero", "last reference dropped but memory not returned to the allocator");
    b.p = nullptr;
}

// drop one reference of block idx via m_mem_unref (used by nested destructors too)
void drop_ref(int idx) {
    Blk &b = D->blks[idx];
    if (!b.p || b.shadow <= 0) return;
    b.shadow--;
    void *r = m_mem_unref(b.p);
    if (r != nullptr) VIOL("C10", "C10:unref-return", "m_mem_unref did not return NULL");
    if (b.shadow == 0) after_zero(idx);
}

void check_all() {
    oracle_eval("C10.alive-while-referenced");
    for (auto &b : D->blks) {
        if (!b.p) continue;
        if (!blk_live(b.p)) VIOL("C10", "C10:freed-while-referenced", "block with %ld references was returned to the allocator", b.shadow);
        if (b.dtor_runs) VIOL("C10", "C10:dtor-while-referenced", "destructor ran on a block that still has %ld references", b.shadow);
        size_t s = m_mem_size(b.p);
        if (s != b.size) VIOL("C10", "C10:size-mismatch", "m_mem_size=%zu requested=%zu", s, b.size);
        check_pattern(b, "after op");
    }
}

} // namespace

RunResult run_mem(const Program &p, bool trace) {
    sim::run_begin(base_cfg(p, trace));
    install_violation_filter("C10");
    m_set_memhook(sk_malloc, sk_calloc, sk_free);
    Drv drv;
    D = &drv;
    for (const Op &op : p.ops) {
        const std::string &n = op.name;
        if (n == "fail") { D->pending_fail = 0; continue; }
        int nb = (int)D->blks.size();
        int bi = nb ? (int)(((op.arg(0) % nb) + nb) % nb) : -1;
        if (n == "new") {
            size_t size = (size_t)(op.arg(0) < 0 ? 0 : op.arg(0));
            int kind = (int)(op.arg(1) % 3);
            void *ptr;
            bool fired;
            {
                FaultScope fs(D->pending_fail);
                D->pending_fail = -1;
                ptr = m_mem_new(size, kind ? dtor_cb : nullptr);
                fired = fs.fired();
            }
            sim::tr("mem_new", (long)size, kind, ptr != nullptr);
            if (!ptr) {
                if (!fired) VIOL("C10", "C10:new-null", "m_mem_new(%zu) returned NULL without allocation failure", size);
                check_all();
                continue;
            }
            oracle_eval("C10.alignment");
            if ((uintptr_t)ptr % alignof(max_align_t) != 0)
                VIOL("C10", "C10:misaligned", "m_mem_new(%zu) returned a pointer with address %% %zu = %zu", size, alignof(max_align_t), (size_t)((uintptr_t)ptr % alignof(max_align_t)));
            if (!blk_live(ptr)) VIOL("C10", "C10:new-outside-allocator", "returned pointer is not inside a live block of the configured allocator");
            Blk b;
            b.p = ptr; b.size = size; b.shadow = 1; b.dtor_kind = kind;
            b.pattern = (uint8_t)(D->news * 37 + 1);
            const uint8_t *d = (const uint8_t *)ptr;
            (void)d;
            for (size_t i = 0; i < size; i++) ((uint8_t *)ptr)[i] = (uint8_t)(b.pattern + i);   // ASan sees any under-allocation
            if (kind == 2) {
                // adopt up to 2 existing live blocks as children (take a reference on each)
                for (int k = 0; k < 2 && nb > 0; k++) {
                    int c = (int)((op.arg(2 + k, -1) % (nb + 1) + (nb + 1)) % (nb + 1));
                    if (c < nb && D->blks[c].p) {
                        void *r = m_mem_ref(D->blks[c].p);
                        if (r != D->blks[c].p) VIOL("C10", "C10:ref-return", "m_mem_ref did not return its argument");
                        D->blks[c].shadow++;
                        b.children.push_back(c);
                    }
                }
            }
            D->blks.push_back(b);
            D->news++;
        } else if (n == "ref") {
            if (bi < 0 || !D->blks[bi].p) continue;
            void *r = m_mem_ref(D->blks[bi].p);
            if (r != D->blks[bi].p) VIOL("C10", "C10:ref-return", "m_mem_ref did not return its argument");
            D->blks[bi].shadow++;
            sim::tr("mem_ref", bi, D->blks[bi].shadow);
        } else if (n == "refmany") {
            // very many simultaneous references to one block (past every narrow counter width), then all but the original ones dropped
            if (bi < 0 || !D->blks[bi].p) continue;
            long cnt = std::max(1L, op.arg(1));
            void *ptr = D->blks[bi].p;
            for (long i = 0; i < cnt; i++) if (m_mem_ref(ptr) != ptr) VIOL("C10", "C10:ref-return", "m_mem_ref did not return its argument");
            D->blks[bi].shadow += cnt;
            sim::tr("mem_refmany", bi, cnt);
            sim::R->ctr.probe("mem_many_references");
            check_all();
            for (long i = 0; i < cnt; i++) {
                D->blks[bi].shadow--;
                m_mem_unref(ptr);
                if ((i & 0x3fff) == 0 || i + 2 >= cnt) check_all();   // still alive and intact all the way down
            }
        } else if (n == "unref") {
            if (bi < 0 || !D->blks[bi].p) continue;
            sim::tr("mem_unref", bi, D->blks[bi].shadow);
            drop_ref(bi);
        } else if (n == "unrefp") {
            if (bi < 0 || !D->blks[bi].p) continue;
            Blk &b = D->blks[bi];
            void *tmp = b.p;
            b.shadow--;
            sim::tr("mem_unrefp", bi, b.shadow);
            m_mem_unrefp(&tmp);
            if (tmp != nullptr) VIOL("C10", "C10:unrefp-not-cleared", "m_mem_unrefp left the caller's pointer set");
            if (b.shadow == 0) after_zero(bi);
        } else if (n == "size") {
            if (bi < 0 || !D->blks[bi].p) continue;
            if (m_mem_size(D->blks[bi].p) != D->blks[bi].size) VIOL("C10", "C10:size-mismatch", "m_mem_size mismatch");
        } else if (n == "nulls") {
            oracle_eval("C10.null-tolerated");
            if (m_mem_ref(nullptr) != nullptr) VIOL("C10", "C10:null-ref", "m_mem_ref(NULL) != NULL");
            if (m_mem_unref(nullptr) != nullptr) VIOL("C10", "C10:null-unref", "m_mem_unref(NULL) != NULL");
            m_mem_unrefp(nullptr);
            void *np = nullptr;
            m_mem_unrefp(&np);
            if (m_mem_size(nullptr) != 0) VIOL("C10", "C10:null-size", "m_mem_size(NULL) != 0");
        }
        check_all();
    }
    // release everything still referenced, in index order
    for (size_t i = 0; i < D->blks.size(); i++)
        while (D->blks[i].p && D->blks[i].shadow > 0) drop_ref((int)i);
    check_all();
    oracle_eval("C10.no-leak");
    if (sim::R->a.outstanding() != 0) VIOL("C10", "C10:leak", "%zu allocation(s) outstanding after all references were dropped", sim::R->a.outstanding());
    if (D->nested) sim::R->ctr.probe("mem_nested_dtor_drop", D->nested);
    RunResult rr;
    rr.fp = sim::R->fp;
    rr.nontrivial = D->news >= 2 && D->drops_to_zero >= 1;
    rr.state_hash = sim::mix64(D->news > 12 ? 12 : D->news, D->nested > 4 ? 4 : D->nested);
    g_stats.absorb_run();
    sim::run_end();
    return rr;
}

Program gen_mem(uint64_t seed, bool thorough) {
    sim::Rng r = sim::fork_rng(seed, "gen");
    Program p;
    p.set("property", "C10");
    p.set("engine", "simstructs");
    p.set("campaign", "C10");
    p.set("seed", (long)seed);
    bool faults = r.chance(0.2);
    int nops = (int)r.range(3, thorough ? 100 : 40);
    int w[] = {30, 22, 30, 8, 6, 2};   // new ref unref unrefp size nulls
    for (int i = 0; i < nops; i++) {
        if (faults && r.chance(0.1)) p.add("D", "fail");
        if (r.chance(0.004)) { static const long big[] = {255, 256, 65535, 65536, 70000}; p.add("D", "refmany", {(long)r.below(64), big[r.below(5)] + (long)r.below(3)}); continue; }
        switch (r.weighted(w, 6)) {
        case 0: {
            long size;
            switch (r.below(4)) {
            case 0: size = (long)r.below(17); break;                 // every residue mod 16
            case 1: size = (long)r.below(256); break;
            case 2: size = (long)(16 * r.below(64) + r.below(16)); break;
            default: size = (long)r.below(4097); break;
            }
            p.add("D", "new", {size, (long)r.below(3), (long)r.below(64), (long)r.below(64)});
            break;
        }
        case 1: p.add("D", "ref", {(long)r.below(64)}); break;
        case 2: p.add("D", "unref", {(long)r.below(64)}); break;
        case 3: p.add("D", "unrefp", {(long)r.below(64)}); break;
        case 4: p.add("D", "size", {(long)r.below(64)}); break;
        case 5: p.add("D", "nulls"); break;
        }
    }
    return p;
}
