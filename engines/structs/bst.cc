// C11 direct driver: ordered set (BST) vs std::set, traversal consistency, destructor target.
#include "common.h"
#include <functional>

namespace {

struct Drv {
    m_bst_t *t = nullptr;
    bool user_cmp = true;
    bool has_dtor = false;
    uint64_t stride = 1;              // default-comparator mode: element k is the synthetic pointer base + k*stride
    std::set<long> model;             // keys present
    std::vector<long> dlog;
    long pending_fail = -1;
    uint64_t mutations = 0, two_child_removals = 0, itr_removals = 0;
};
Drv *D;
long g_keycells[4096];                // user comparator mode: element k is &g_keycells[k], holding k

const uintptr_t SYN_BASE = 0x100000000000ULL;
void *elem_of(long k) {
    if (D->user_cmp) return &g_keycells[k];
    return (void *)(SYN_BASE + (uintptr_t)k * D->stride);
}
long key_of(const void *e) {
    if (D->user_cmp) {
        if (e < (void *)g_keycells || e >= (void *)(g_keycells + 4096)) return -1;
        return (long)((const long *)e - g_keycells);
    }
    uintptr_t v = (uintptr_t)e;
    if (v < SYN_BASE || (v - SYN_BASE) % D->stride) return -1;
    return (long)((v - SYN_BASE) / D->stride);
}
int user_cmp_fn(void *a, void *b) {
    long x = *(long *)a, y = *(long *)b;
    return x < y ? -1 : (x > y ? 1 : 0);
}
void dtor_cb(void *e) {
    long k = key_of(e);
    if (k < 0) VIOL("C11", "C11:dtor-foreign-pointer", "destructor called with a pointer that was never inserted");
    D->dlog.push_back(k);
}
void expect_dlog(std::vector<long> exp, const char *opname) {
    oracle_eval("C11.dtor-target");
    if (!D->has_dtor) exp.clear();
    std::vector<long> got = D->dlog;
    D->dlog.clear();
    std::sort(exp.begin(), exp.end());
    std::sort(got.begin(), got.end());
    if (got == exp) return;
    std::string e, g;
    for (long x : exp) e += std::to_string(x) + " ";
    for (long x : got) g += std::to_string(x) + " ";
    for (long x : got) if (D->model.count(x)) VIOL("C11", "C11:dtor-on-live-element", "%s: destructor ran on element %ld which stays in the set (expected [%s] got [%s])", opname, x, e.c_str(), g.c_str());
    for (long x : got) if (std::count(got.begin(), got.end(), x) > 1) VIOL("C11", "C11:dtor-twice", "%s: element %ld destroyed twice", opname, x);
    for (long x : exp) if (!std::count(got.begin(), got.end(), x)) VIOL("C11", "C11:dtor-missing", "%s: removed element %ld was not destroyed (expected [%s] got [%s])", opname, x, e.c_str(), g.c_str());
    VIOL("C11", "C11:dtor-unexpected", "%s: expected destroyed [%s] got [%s]", opname, e.c_str(), g.c_str());
}

std::vector<long> g_trav;
int trav_cb(void *up, void *e) {
    (void)up;
    g_trav.push_back(key_of(e));
    return 0;
}

// rebuild the unique BST with the given pre-order over ascending keys, emit its post-order
bool post_from_pre(const std::vector<long> &pre, std::vector<long> &post) {
    size_t idx = 0;
    std::function<void(long, long)> rec = [&](long lo, long hi) {
        if (idx >= pre.size()) return;
        long v = pre[idx];
        if (v <= lo || v >= hi) return;
        idx++;
        rec(lo, v);
        rec(v, hi);
        post.push_back(v);
    };
    rec(-1, 1L << 60);
    return idx == pre.size();
}

void verify_structure() {
    oracle_eval("C11.traversal");
    if (!D->t) return;
    ssize_t len = m_bst_len(D->t);
    if (len != (ssize_t)D->model.size()) VIOL("C11", "C11:len-mismatch", "m_bst_len=%zd model=%zu", len, D->model.size());
    std::vector<long> in, pre, post;
    g_trav.clear(); int rc = m_bst_traverse(D->t, M_BST_IN, trav_cb, nullptr); in = g_trav;
    if (rc != 0) VIOL("C11", "C11:traverse-rc", "in-order traverse rc=%d", rc);
    g_trav.clear(); m_bst_traverse(D->t, M_BST_PRE, trav_cb, nullptr); pre = g_trav;
    g_trav.clear(); m_bst_traverse(D->t, M_BST_POST, trav_cb, nullptr); post = g_trav;
    std::vector<long> want(D->model.begin(), D->model.end());
    if (in != want) {
        for (size_t i = 1; i < in.size(); i++) if (in[i] <= in[i - 1]) VIOL("C11", "C11:inorder-not-ascending", "in-order traversal not strictly ascending at position %zu (%ld then %ld)", i, in[i - 1], in[i]);
        VIOL("C11", "C11:inorder-incomplete", "in-order traversal yields %zu elements, set has %zu", in.size(), want.size());
    }
    std::vector<long> sp = pre, so = post;
    std::sort(sp.begin(), sp.end());
    std::sort(so.begin(), so.end());
    if (sp != want || so != want) VIOL("C11", "C11:traversal-incomplete", "pre/post-order traversal does not visit each element exactly once");
    std::vector<long> expect_post;
    if (!post_from_pre(pre, expect_post) || expect_post != post) VIOL("C11", "C11:traversals-inconsistent", "pre- and post-order are not traversals of one binary search tree");
}

void verify_find(long k) {
    oracle_eval("C11.find");
    void *got = m_bst_find(D->t, elem_of(k));
    if (D->model.count(k)) {
        if (got != elem_of(k)) VIOL("C11", "C11:find-miss", "find(%ld) returned %s", k, got ? "a different element" : "NULL");
    } else if (got) {
        VIOL("C11", "C11:find-ghost", "find(%ld) returned element %ld although %ld is absent", k, key_of(got), k);
    }
}

void do_new(int user_cmp, int dtor, long stride_sel) {
    D->user_cmp = user_cmp != 0;
    D->has_dtor = dtor != 0;
    static const uint64_t strides[] = {8, 4096, 1ULL << 31, 1ULL << 32, (1ULL << 32) + 8, 1ULL << 33, 3ULL << 31, 1ULL << 40};
    D->stride = strides[((stride_sel % 8) + 8) % 8];
    FaultScope fs(D->pending_fail);
    D->pending_fail = -1;
    D->t = m_bst_new(D->user_cmp ? user_cmp_fn : nullptr, dtor ? dtor_cb : nullptr);
    if (!D->t && !fs.fired()) VIOL("C11", "C11:new-failed", "m_bst_new returned NULL");
    D->model.clear();
    sim::tr("bst_new", user_cmp, dtor, (long)(stride_sel % 8));
}
void do_free() {
    if (!D->t) return;
    std::vector<long> exp(D->model.begin(), D->model.end());
    int rc = m_bst_free(&D->t);
    if (rc != 0 || D->t) VIOL("C11", "C11:free-failed", "m_bst_free rc=%d", rc);
    D->model.clear();
    expect_dlog(exp, "free");
}

} // namespace

RunResult run_bst(const Program &p, bool trace) {
    sim::run_begin(base_cfg(p, trace));
    install_violation_filter("C11");
    m_set_memhook(sk_malloc, sk_calloc, sk_free);
    for (int i = 0; i < 4096; i++) g_keycells[i] = i;
    Drv drv;
    D = &drv;
    long nkeys = std::max(2L, std::min(4000L, p.get("nkeys", 16)));
    do_new((int)p.get("usercmp", 1), (int)p.get("dtor", 1), p.get("stride", 0));
    for (const Op &op : p.ops) {
        const std::string &n = op.name;
        if (n == "fail") { D->pending_fail = 0; continue; }
        if (n == "new") { do_free(); do_new((int)op.arg(0), (int)op.arg(1), op.arg(2)); continue; }
        if (!D->t) { D->pending_fail = -1; continue; }
        long lim = nkeys;
        if (!D->user_cmp) lim = std::min<long>(nkeys, (long)((1ULL << 46) / D->stride));   // keep synthetic pointers within a user address space
        if (lim < 2) lim = 2;
        long k = ((op.arg(0) % lim) + lim) % lim + 1;
        if (n == "insert") {
            int rc;
            bool fired;
            {
                FaultScope fs(D->pending_fail);
                D->pending_fail = -1;
                rc = m_bst_insert(D->t, elem_of(k));
                fired = fs.fired();
            }
            sim::tr("bst_insert", k, rc);
            oracle_eval("C11.insert");
            if (D->model.count(k)) {
                if (rc >= 0) VIOL("C11", "C11:insert-duplicate-accepted", "insert of present element %ld returned %d", k, rc);
            } else if (rc == 0) {
                D->model.insert(k);
                D->mutations++;
            } else if (!fired) {
                VIOL("C11", "C11:insert-refused", "insert of absent element %ld returned %d (set has %zu elements)", k, rc, D->model.size());
            }
            expect_dlog({}, "insert");
            verify_find(k);
        } else if (n == "remove") {
            int rc = m_bst_remove(D->t, elem_of(k));
            sim::tr("bst_remove", k, rc);
            oracle_eval("C11.remove");
            std::vector<long> exp;
            if (D->model.count(k)) {
                if (rc != 0) VIOL("C11", "C11:remove-failed", "remove of present element %ld returned %d", k, rc);
                D->model.erase(k);
                exp.push_back(k);
                D->mutations++;
            } else if (rc >= 0) {
                VIOL("C11", "C11:remove-absent-ok", "remove of absent element %ld returned %d", k, rc);
            }
            expect_dlog(exp, "remove");
            verify_find(k);
        } else if (n == "find") {
            verify_find(k);
        } else if (n == "itr") {
            sim::Rng r(sim::mix64(p.getu("seed"), op.arg(0) + 5));
            int remove_pct = (int)(op.arg(1) % 101);
            int again_pct = (int)(op.arg(2) % 101);
            sim::Rng r2(sim::mix64(p.getu("seed"), op.arg(0) + 77));
            bool loose = false;
            std::vector<long> visited, removed;
            std::set<long> live = D->model;
            m_bst_itr_t *itr;
            bool fired;
            {
                FaultScope fs(D->pending_fail);
                D->pending_fail = -1;
                itr = m_bst_itr_new(D->t);
                fired = fs.fired();
            }
            if (!itr && !live.empty() && !fired) VIOL("C11", "C11:itr-new-null", "iterator on non-empty set is NULL");
            if (itr && live.empty()) VIOL("C11", "C11:itr-ghost", "iterator on empty set");
            size_t guard = 0;
            while (itr) {
                if (guard++ > live.size() + 4) VIOL("C11", "C11:itr-endless", "iterator yields more elements than the set holds");
                void *e = m_bst_itr_get_data(itr);
                long ek = e ? key_of(e) : -1;
                if (!loose && (ek < 0 || !D->model.count(ek))) VIOL("C11", "C11:itr-ghost", "iterator yielded an element that is not in the set");
                visited.push_back(ek);
                if (!loose && (int)r.below(100) < remove_pct) {
                    int rc = m_bst_itr_remove(itr);
                    if (rc != 0) VIOL("C11", "C11:itr-remove-failed", "m_bst_itr_remove rc=%d", rc);
                    D->model.erase(ek);
                    removed.push_back(ek);
                    D->itr_removals++;
                    D->mutations++;
                    // a second removal before the iterator moved on: there is no current element any more. It is either refused (nothing
                    // changes) or it acts on the element the iterator would yield next - never on another one
                    if ((int)r2.below(100) < again_pct) {
                        sim::R->ctr.probe("bst_itr_remove_twice");
                        int rc2 = m_bst_itr_remove(itr);
                        auto nx = D->model.upper_bound(ek);
                        if (rc2 == 0) {
                            if (nx == D->model.end()) VIOL("C11", "C11:itr-remove-nothing-ok", "a second m_bst_itr_remove with no element left to visit returned 0");
                            removed.push_back(*nx);
                            D->model.erase(nx);
                            D->mutations++;
                            loose = true;   // (whether the iterator then moves on is not ours to say)
                        }
                    }
                }
                m_bst_itr_next(&itr);
            }
            sim::tr("bst_itr", (long)visited.size(), (long)removed.size());
            oracle_eval("C11.itr-sorted-once");
            if (!(fired && visited.empty()) && !loose) {
                for (size_t i = 1; i < visited.size(); i++)
                    if (visited[i] <= visited[i - 1]) VIOL("C11", visited[i] == visited[i - 1] ? "C11:itr-visited-twice" : "C11:itr-not-ascending", "iterator yielded %ld after %ld", visited[i], visited[i - 1]);
                std::vector<long> want(live.begin(), live.end());
                if (visited.size() != want.size()) VIOL("C11", "C11:itr-missed", "iterator yielded %zu of %zu elements", visited.size(), want.size());
            }
            expect_dlog(removed, "iterator");
        } else if (n == "clear") {
            std::vector<long> exp(D->model.begin(), D->model.end());
            bool fired;
            {
                FaultScope fs(D->pending_fail);
                D->pending_fail = -1;
                m_bst_clear(D->t);
                fired = fs.fired();
            }
            sim::tr("bst_clear");
            if (fired && m_bst_len(D->t) != 0) {
                expect_dlog({}, "clear");
            } else {
                D->model.clear();
                expect_dlog(exp, "clear");
            }
        } else if (n == "free") {
            bool uc = D->user_cmp, dt = D->has_dtor;
            do_free();
            do_new(uc, dt, op.arg(0));
        }
        verify_structure();
    }
    do_free();
    oracle_eval("C11.no-leak");
    if (sim::R->a.outstanding() != 0) VIOL("C11", "C11:leak", "%zu allocation(s) outstanding after m_bst_free", sim::R->a.outstanding());
    if (D->itr_removals) sim::R->ctr.probe("bst_removed_through_iterator", D->itr_removals);
    if (!D->user_cmp && D->stride >= (1ULL << 31)) sim::R->ctr.probe("bst_default_cmp_far_pointers");
    RunResult rr;
    rr.fp = sim::R->fp;
    rr.nontrivial = D->mutations >= 3;
    rr.state_hash = sim::mix64(D->user_cmp, sim::mix64(D->has_dtor, D->mutations > 16 ? 16 : D->mutations));
    g_stats.absorb_run();
    sim::run_end();
    return rr;
}

Program gen_bst(uint64_t seed, bool thorough) {
    sim::Rng r = sim::fork_rng(seed, "gen");
    Program p;
    p.set("property", "C11");
    p.set("engine", "simstructs");
    p.set("campaign", "C11");
    p.set("seed", (long)seed);
    long nkeys = r.chance(0.6) ? r.range(3, 8) : r.range(9, thorough ? 200 : 40);
    p.set("nkeys", nkeys);
    p.set("usercmp", r.chance(0.65) ? 1 : 0);
    p.set("dtor", r.chance(0.7) ? 1 : 0);
    p.set("stride", (long)r.below(8));
    bool faults = r.chance(0.2);
    // a random permutation prefix first: all insertion orders of small key sets arise by seed
    std::vector<long> perm;
    for (long i = 0; i < nkeys; i++) perm.push_back(i);
    for (size_t i = perm.size() - 1; i > 0; i--) std::swap(perm[i], perm[r.below(i + 1)]);
    size_t pre = r.below(perm.size() + 1);
    for (size_t i = 0; i < pre && i < 64; i++) p.add("D", "insert", {perm[i]});
    int nops = (int)r.range(3, thorough ? 100 : 40);
    int w[] = {26, 30, 8, 14, 2, 2, 1};   // insert remove find itr clear free new
    for (int i = 0; i < nops; i++) {
        if (faults && r.chance(0.1)) p.add("D", "fail");
        switch (r.weighted(w, 7)) {
        case 0: p.add("D", "insert", {(long)r.below(nkeys)}); break;
        case 1: p.add("D", "remove", {(long)r.below(nkeys)}); break;
        case 2: p.add("D", "find", {(long)r.below(nkeys)}); break;
        case 3: p.add("D", "itr", {(long)r.below(100000), (long)(r.chance(0.7) ? r.below(101) : 0), (long)(r.chance(0.3) ? r.below(101) : 0)}); break;
        case 4: p.add("D", "clear"); break;
        case 5: p.add("D", "free", {(long)r.below(8)}); break;
        case 6: p.add("D", "new", {(long)r.below(2), (long)r.below(2), (long)r.below(8)}); break;
        }
    }
    return p;
}
