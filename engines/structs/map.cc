// C05 direct driver: string-keyed map vs std::map reference model, with allocator faults.
#include "common.h"

namespace {

// copy of the library's hash, used ONLY as a search heuristic to build adversarial key sets
// (keys sharing a home slot, clusters that wrap around the table end). The oracle never uses it.
size_t heur_hash(const char *key) {
    size_t hash = (uint32_t)5381;
    char c;
    while ((c = *key++)) hash = ((hash << 5) + hash) + c;
    hash ^= hash >> 16; hash *= 0x85ebca6b; hash ^= hash >> 13; hash *= 0xc2b2ae35; hash ^= hash >> 16;
    return hash;
}

std::vector<std::string> make_keys(int kind, int n, uint64_t kseed) {
    sim::Rng r = sim::fork_rng(kseed, "keys");
    std::vector<std::string> out;
    std::set<std::string> seen;
    auto add = [&](const std::string &s) { if (seen.insert(s).second) out.push_back(s); };
    long ctr = 0;
    int guard = 0;
    size_t target = r.below(256);
    if (kind == 6) {
        // keys that are proper prefixes of one another, the extension homed at the same slot as its prefix (same probe chain): a
        // lookup of the short key walks past (or onto) the long one and vice versa
        while ((int)out.size() < n && guard++ < 200) {
            std::string base = "p" + std::to_string(r.below(100000));
            size_t hb = heur_hash(base.c_str()) & 255;
            add(base);
            int found = 0;
            for (long j = 0; j < 200000 && found < 2 && (int)out.size() < n; j++) {
                std::string ext = base + "x" + std::to_string(j);
                if ((heur_hash(ext.c_str()) & 255) == hb) { add(ext); found++; }
            }
            if ((int)out.size() < n && r.chance(0.5)) add(base.substr(0, base.size() - 1));   // and a prefix of the base itself (any slot)
        }
        return out;
    }
    if (kind == 7) {
        // one long cluster: as many keys as one probe chain takes (the probe limit is half of the 256-slot table) homed at one slot,
        // then keys homed at the next few slots, which land behind them: entries far beyond the probe limit from the head of the cluster
        int head = std::max(1, n - (int)r.range(2, 12));
        std::vector<std::string> tail;
        long c2 = 0;
        while (((int)out.size() < head || (int)tail.size() < n - head) && guard++ < 4000000) {
            std::string k = "c" + std::to_string(c2++);
            size_t h = heur_hash(k.c_str()) & 255;
            if (h == target && (int)out.size() < head) add(k);
            else if (h != target && ((h - target) & 255) <= 3 && (int)tail.size() < n - head) tail.push_back(k);
        }
        for (auto &k : tail) add(k);
        return out;
    }
    while ((int)out.size() < n && guard++ < 2000000) {
        std::string k = "k" + std::to_string(r.below(1000000)) + "_" + std::to_string(ctr++);
        size_t h = heur_hash(k.c_str());
        switch (kind) {
        case 0: add(k); break;                                       // random
        case 1: if ((h & 255) == target) add(k); break;              // one home slot (mod 256)
        case 2: if ((h & 255) >= 253) add(k); break;                 // homes at the end of a 256 table: wrap-around
        case 3: if ((h & 255) >= 250 || (h & 255) <= 1) add(k); break; // cluster across the table end
        case 4: if ((h & 511) >= 509 || (h & 255) >= 254) add(k); break; // wrap-around also after growth to 512
        default: add(k); break;
        }
    }
    return out;
}

struct Drv {
    m_map_t *m = nullptr;
    int flags = 0;
    bool has_dtor = false;
    std::vector<std::string> keys;
    std::map<std::string, long> model;
    std::vector<long> dlog;
    long next_val = 16;
    long pending_fail = -1;
    sim::Rng vr;
    uint64_t mutations = 0, iter_removals = 0, growth = 0;
};
Drv *D;

void dtor_cb(void *v) {
    if (!is_cell(v)) VIOL("C05", "C05:dtor-foreign-pointer", "destructor called with a pointer that is no value ever stored");
    D->dlog.push_back(cell_id(v));
}

void expect_dlog(std::vector<long> expected, const char *opname, const std::vector<long> &optional = {}) {
    oracle_eval("C05.dtor-log");
    if (!D->has_dtor) expected.clear();
    std::vector<long> got = D->dlog;
    std::sort(expected.begin(), expected.end());
    std::sort(got.begin(), got.end());
    // optional: values that may or may not have been destroyed (statement silent)
    for (long o : optional) {
        auto it = std::find(got.begin(), got.end(), o);
        if (it != got.end() && std::find(expected.begin(), expected.end(), o) == expected.end()) got.erase(it);
    }
    if (got != expected) {
        std::string e, g;
        for (long x : expected) e += std::to_string(x) + " ";
        for (long x : got) g += std::to_string(x) + " ";
        // classify
        for (long x : got) if (std::count(got.begin(), got.end(), x) > 1) VIOL("C05", "C05:dtor-twice", "%s: value %ld destroyed more than once (expected [%s] got [%s])", opname, x, e.c_str(), g.c_str());
        for (long x : got) if (std::find(expected.begin(), expected.end(), x) == expected.end()) {
            bool live = false;
            for (auto &kv : D->model) if (kv.second == x) live = true;
            VIOL("C05", live ? "C05:dtor-on-live-value" : "C05:dtor-unexpected", "%s: value %ld destroyed but should not be (expected [%s] got [%s])", opname, x, e.c_str(), g.c_str());
        }
        VIOL("C05", "C05:dtor-missing", "%s: expected destroyed [%s] got [%s]", opname, e.c_str(), g.c_str());
    }
    D->dlog.clear();
}

void verify(const std::vector<int> &touched, bool full) {
    oracle_eval("C05.model-equality");
    if (!D->m) return;
    ssize_t len = m_map_len(D->m);
    if (len != (ssize_t)D->model.size()) VIOL("C05", "C05:len-mismatch", "m_map_len=%zd model=%zu", len, D->model.size());
    auto check = [&](int ki) {
        const std::string &k = D->keys[ki];
        void *got = m_map_get(D->m, k.c_str());
        bool has = m_map_contains(D->m, k.c_str());
        auto it = D->model.find(k);
        if (it == D->model.end()) {
            if (got || has) VIOL("C05", "C05:get-ghost", "key %d present in map but not in model (get=%p contains=%d)", ki, got, has);
        } else {
            if (!got || !has) VIOL("C05", "C05:get-lost", "key %d (%s) in model but map says absent", ki, k.c_str());
            if (got != cell(it->second)) VIOL("C05", "C05:get-wrong-value", "key %d maps to value %ld, model says %ld", ki, is_cell(got) ? cell_id(got) : -1, it->second);
        }
    };
    for (int t : touched) check(t);
    if (full || D->keys.size() <= 48) {
        for (size_t i = 0; i < D->keys.size(); i++) check((int)i);
    } else {
        for (int i = 0; i < 12; i++) check((int)D->vr.below(D->keys.size()));
    }
}

const char *pass_key(int ki, bool &owned_by_us, char **scratch) {
    const std::string &k = D->keys[ki];
    owned_by_us = false;
    *scratch = nullptr;
    if (D->flags & M_MAP_KEY_DUP) {
        // hand over a temporary: the map must keep a private copy
        char *tmp = (char *)malloc(k.size() + 1);
        memcpy(tmp, k.c_str(), k.size() + 1);
        *scratch = tmp;
        return tmp;
    }
    if (D->flags & M_MAP_KEY_AUTOFREE) {
        char *own = (char *)sk_malloc(k.size() + 1);
        memcpy(own, k.c_str(), k.size() + 1);
        owned_by_us = true;
        return own;
    }
    return k.c_str();
}

void do_new(int flags, int dtor) {
    FaultScope fs(D->pending_fail);
    D->pending_fail = -1;
    D->flags = flags;
    D->has_dtor = dtor != 0;
    D->m = m_map_new((m_map_flags)flags, dtor ? dtor_cb : nullptr);
    sim::tr("map_new", flags, dtor, D->m != nullptr);
    if (!D->m && !fs.fired()) VIOL("C05", "C05:new-failed", "m_map_new returned NULL without allocation failure");
    D->model.clear();
}

void do_free() {
    if (!D->m) return;
    std::vector<long> exp;
    for (auto &kv : D->model) exp.push_back(kv.second);
    int rc = m_map_free(&D->m);
    sim::tr("map_free", rc);
    if (rc != 0 || D->m) VIOL("C05", "C05:free-failed", "m_map_free rc=%d handle=%p", rc, (void *)D->m);
    D->model.clear();
    expect_dlog(exp, "free");
}

struct IterCtx { sim::Rng r; int remove_pct; int stop_at; int stop_rc; std::vector<std::string> visited; int n = 0; std::vector<long> removed_vals; };

int iterate_cb(void *up, const char *key, void *value) {
    IterCtx *c = (IterCtx *)up;
    std::string k(key);
    c->visited.push_back(k);
    auto it = D->model.find(k);
    if (it == D->model.end()) VIOL("C05", "C05:iterate-ghost", "m_map_iterate visited key %s that is not live", key);
    if (value != cell(it->second)) VIOL("C05", "C05:iterate-wrong-value", "m_map_iterate passed wrong value for %s", key);
    int idx = c->n++;
    if (c->stop_at >= 0 && idx == c->stop_at) return c->stop_rc;
    if ((int)c->r.below(100) < c->remove_pct) {
        long v = it->second;
        int rc = m_map_remove(D->m, key);
        if (rc != 0) VIOL("C05", "C05:remove-failed", "m_map_remove of current entry inside iterate rc=%d", rc);
        D->model.erase(it);
        c->removed_vals.push_back(v);
        D->iter_removals++;
    }
    return 0;
}

void check_visits(const std::vector<std::string> &visited, const std::set<std::string> &live_at_start, bool complete, const char *what) {
    oracle_eval("C05.visit-once");
    std::set<std::string> seen;
    for (auto &k : visited) {
        if (!seen.insert(k).second) VIOL("C05", "C05:visited-twice", "%s visited key %s twice", what, k.c_str());
        if (!live_at_start.count(k)) VIOL("C05", "C05:visited-ghost", "%s visited key %s that was not live", what, k.c_str());
    }
    if (complete && seen.size() != live_at_start.size()) {
        for (auto &k : live_at_start) if (!seen.count(k)) VIOL("C05", "C05:visit-missed", "%s never visited live key %s (%zu of %zu visited)", what, k.c_str(), seen.size(), live_at_start.size());
    }
}

} // namespace

RunResult run_map(const Program &p, bool trace) {
    sim::run_begin(base_cfg(p, trace));
    install_violation_filter("C05");
    m_set_memhook(sk_malloc, sk_calloc, sk_free);
    Drv drv;
    D = &drv;
    D->keys = make_keys((int)p.get("keykind"), (int)p.get("nkeys", 16), p.getu("kseed", 1));
    D->vr = sim::fork_rng(p.getu("seed"), "verify");
    if (D->keys.empty()) D->keys.push_back("k");
    int nk = (int)D->keys.size();
    do_new((int)p.get("flags"), (int)p.get("dtor", 1));

    for (const Op &op : p.ops) {
        const std::string &n = op.name;
        if (n == "fail") { D->pending_fail = op.arg(0) % 4; continue; }
        if (n == "new") { if (D->m) do_free(); do_new((int)op.arg(0) & (M_MAP_KEY_DUP | M_MAP_KEY_AUTOFREE | M_MAP_VAL_ALLOW_UPDATE), (int)op.arg(1)); continue; }
        if (!D->m) { D->pending_fail = -1; continue; }
        int ki = (int)(((op.arg(0) % nk) + nk) % nk);
        const std::string &key = D->keys[ki];
        if (n == "put" || n == "putsame") {
            auto it = D->model.find(key);
            bool present = it != D->model.end();
            bool autofree_nodup = (D->flags & M_MAP_KEY_AUTOFREE) && !(D->flags & M_MAP_KEY_DUP);
            if (autofree_nodup && present) { D->pending_fail = -1; continue; }   // key ownership on a refused/updating put is unspecified: skip
            long val = (n == "putsame" && present) ? it->second : D->next_val++;
            bool owned;
            char *scratch;
            const char *kp = pass_key(ki, owned, &scratch);
            int rc;
            bool fired;
            {
                FaultScope fs(D->pending_fail);
                D->pending_fail = -1;
                rc = m_map_put(D->m, kp, cell(val));
                fired = fs.fired();
            }
            if (scratch) { memset(scratch, 'Z', strlen(scratch)); free(scratch); }
            sim::tr("map_put", ki, rc, fired);
            std::vector<long> exp;
            if (rc == 0) {
                if (present && !(D->flags & M_MAP_VAL_ALLOW_UPDATE)) VIOL("C05", "C05:put-update-not-allowed", "put on existing key %d succeeded although updates are not allowed", ki);
                if (present && it->second != val) exp.push_back(it->second);
                D->model[key] = val;
                D->mutations++;
            } else {
                if (rc > 0) VIOL("C05", "C05:put-positive-rc", "m_map_put returned %d", rc);
                bool must_succeed = !fired && (!present || (D->flags & M_MAP_VAL_ALLOW_UPDATE));
                if (must_succeed) VIOL("C05", "C05:put-refused", "put of %s key %d failed rc=%d without allocation failure", present ? "existing" : "new", ki, rc);
                if (owned) sk_free((void *)kp);   // map did not take the key
            }
            expect_dlog(exp, "put");
            verify({ki}, fired);
        } else if (n == "get") {
            verify({ki}, false);
        } else if (n == "remove") {
            auto it = D->model.find(key);
            int rc = m_map_remove(D->m, key.c_str());
            sim::tr("map_remove", ki, rc);
            std::vector<long> exp;
            if (it != D->model.end()) {
                if (rc != 0) VIOL("C05", "C05:remove-failed", "remove of live key %d rc=%d", ki, rc);
                exp.push_back(it->second);
                D->model.erase(it);
                D->mutations++;
            } else if (rc >= 0) {
                VIOL("C05", "C05:remove-absent-ok", "remove of absent key %d returned %d", ki, rc);
            }
            expect_dlog(exp, "remove");
            verify({ki}, false);
        } else if (n == "iterate") {
            IterCtx c;
            c.r = sim::Rng(sim::mix64(p.getu("seed"), op.arg(0)));
            c.remove_pct = (int)(op.arg(1) % 101);
            c.stop_at = op.arg(2) >= 0 ? (int)op.arg(2) : -1;
            c.stop_rc = op.arg(3) >= 0 ? 1 : -7;
            std::set<std::string> live;
            for (auto &kv : D->model) live.insert(kv.first);
            int rc = m_map_iterate(D->m, iterate_cb, &c);
            sim::tr("map_iterate", rc, c.n);
            bool stopped = c.stop_at >= 0 && c.n > c.stop_at;
            if (live.empty()) {
                if (c.n) VIOL("C05", "C05:iterate-ghost", "callback invoked on empty map");
            } else {
                if (stopped && c.stop_rc < 0 && rc != c.stop_rc) VIOL("C05", "C05:iterate-rc", "iterate returned %d, callback returned %d", rc, c.stop_rc);
                if ((!stopped || c.stop_rc > 0) && rc != 0) VIOL("C05", "C05:iterate-rc", "iterate returned %d, expected 0", rc);
            }
            check_visits(c.visited, live, !stopped, "m_map_iterate");
            expect_dlog(c.removed_vals, "iterate");
            verify({}, true);
        } else if (n == "itr") {
            sim::Rng r(sim::mix64(p.getu("seed"), op.arg(0) + 77));
            int remove_pct = (int)(op.arg(1) % 101), set_pct = (int)(op.arg(2) % 101);
            long stop_at = op.arg(3);
            int again_pct = (int)(op.arg(4, 0) % 101);
            sim::Rng r2(sim::mix64(p.getu("seed"), op.arg(0) + 277));
            bool loose = false;
            std::set<std::string> live;
            for (auto &kv : D->model) live.insert(kv.first);
            std::vector<std::string> visited;
            std::vector<long> removed, replaced;
            m_map_itr_t *itr;
            bool fired;
            {
                FaultScope fs(D->pending_fail);
                D->pending_fail = -1;
                itr = m_map_itr_new(D->m);
                fired = fs.fired();
            }
            if (!itr && !live.empty() && !fired) VIOL("C05", "C05:itr-new-null", "iterator on non-empty map is NULL");
            if (itr && live.empty()) VIOL("C05", "C05:itr-ghost", "iterator on empty map is not NULL");
            bool stopped = false;
            long idx = 0;
            while (itr) {
                const char *k = m_map_itr_get_key(itr);
                void *v = m_map_itr_get_data(itr);
                if (!k) VIOL("C05", "C05:itr-null-key", "iterator positioned on an element returns NULL key");
                std::string ks(k);
                visited.push_back(ks);
                auto it = D->model.find(ks);
                if (it == D->model.end()) VIOL("C05", "C05:visited-ghost", "iterator visited key %s that is not live", k);
                if (v != cell(it->second)) VIOL("C05", "C05:itr-wrong-value", "iterator returned wrong value for %s", k);
                int a = (int)r.below(100);
                if (a < remove_pct) {
                    long val = it->second;
                    int rc = m_map_itr_remove(itr);
                    if (rc != 0) VIOL("C05", "C05:itr-remove-failed", "m_map_itr_remove rc=%d", rc);
                    D->model.erase(it);
                    removed.push_back(val);
                    D->iter_removals++;
                    // Right after a removal the iterator has no current entry (its own getters say so). An edit attempted now must be
                    // refused: there is nothing it could legitimately act on
                    if ((int)r2.below(100) < again_pct) {
                        sim::R->ctr.probe("map_itr_edit_right_after_remove");
                        bool no_current = m_map_itr_get_key(itr) == nullptr;
                        bool do_set = r2.below(2) == 0;
                        int rc2 = do_set ? m_map_itr_set_data(itr, cell(D->next_val)) : m_map_itr_remove(itr);
                        if (rc2 == 0 && no_current)
                            VIOL("C05", do_set ? "C05:itr-set-without-current-accepted" : "C05:itr-remove-without-current-accepted", "m_map_itr_%s right after a removal (no current entry: the key getter returns NULL) returned 0", do_set ? "set_data" : "remove");
                        if (rc2 == 0) { D->next_val++; loose = true; }
                    }
                } else if (a < remove_pct + set_pct) {
                    long nv = D->next_val++;
                    int rc = m_map_itr_set_data(itr, cell(nv));
                    if (rc != 0) VIOL("C05", "C05:itr-set-failed", "m_map_itr_set_data rc=%d", rc);
                    replaced.push_back(it->second);
                    it->second = nv;
                }
                if (stop_at >= 0 && idx == stop_at) { sk_free(itr); itr = nullptr; stopped = true; break; }
                idx++;
                m_map_itr_next(&itr);
            }
            sim::tr("map_itr", (long)visited.size(), (long)removed.size());
            if (loose) { sim::tr("map_itr_loose"); }   // (an accepted edit without a current entry was reported above; nothing further is checked on this walk)
            else {
                check_visits(visited, live, !stopped && !(fired && visited.empty()), "iterator");
                expect_dlog(removed, "iterator", replaced);
                verify({}, true);
            }
        } else if (n == "clear") {
            std::vector<long> exp;
            for (auto &kv : D->model) exp.push_back(kv.second);
            bool fired;
            int rc;
            {
                FaultScope fs(D->pending_fail);
                D->pending_fail = -1;
                rc = m_map_clear(D->m);
                fired = fs.fired();
            }
            sim::tr("map_clear", rc);
            if (fired && m_map_len(D->m) != 0) {
                // iterator allocation failed: clear had no effect (allowed), model unchanged
                expect_dlog({}, "clear");
            } else {
                if (rc != 0) VIOL("C05", "C05:clear-failed", "m_map_clear rc=%d", rc);
                D->model.clear();
                expect_dlog(exp, "clear");
            }
            verify({}, true);
        } else if (n == "free") {
            do_free();
            do_new(D->flags, D->has_dtor);
        }
        if (D->m && (size_t)m_map_len(D->m) > 192) D->growth++;
    }
    do_free();
    oracle_eval("C05.no-leak");
    if (sim::R->a.outstanding() != 0) {
        auto live = sim::R->a.live_blocks();
        VIOL("C05", "C05:leak", "%zu allocation(s) outstanding after m_map_free, first of %zu bytes", live.size(), live.empty() ? 0 : live[0].second.size);
    }
    if (D->growth) sim::R->ctr.probe("map_grew_past_256");
    if (D->iter_removals) sim::R->ctr.probe("map_removed_during_iteration", D->iter_removals);
    if (p.get("keykind") >= 2) sim::R->ctr.probe("map_wraparound_keyset");
    RunResult rr;
    rr.fp = sim::R->fp;
    rr.nontrivial = D->mutations >= 3;
    rr.state_hash = sim::mix64(p.get("keykind"), sim::mix64(p.get("flags"), D->mutations > 20 ? 20 : D->mutations));
    g_stats.absorb_run();
    sim::run_end();
    return rr;
}

Program gen_map(uint64_t seed, bool thorough) {
    sim::Rng r = sim::fork_rng(seed, "gen");
    Program p;
    p.set("property", "C05");
    p.set("engine", "simstructs");
    p.set("campaign", "C05");
    p.set("seed", (long)seed);
    int kinds[] = {0, 0, 1, 2, 2, 3, 3, 4, 5, 6};
    int kind = kinds[r.below(10)];
    if (r.chance(0.02)) kind = 7;   // (expensive: ~130 keys of one neighbourhood)
    int nkeys;
    if (kind == 5) nkeys = (int)r.range(200, thorough ? 900 : 420);   // growth
    else nkeys = (int)r.range(2, kind == 0 ? 40 : 10);
    if (kind == 6) nkeys = (int)r.range(3, 9);
    if (kind == 7) nkeys = (int)r.range(120, 140);
    p.set("keykind", kind == 5 ? 0 : kind);
    p.set("nkeys", nkeys);
    p.set("kseed", (long)r.below(1000000));
    int fl = 0;
    if (r.chance(0.4)) fl |= M_MAP_KEY_DUP;
    if (r.chance(0.2)) fl |= M_MAP_KEY_AUTOFREE;
    if (r.chance(0.5)) fl |= M_MAP_VAL_ALLOW_UPDATE;
    p.set("flags", fl);
    p.set("dtor", r.chance(0.8) ? 1 : 0);
    bool faults = r.chance(0.25);
    p.set("faults", faults);
    int nops = (int)r.range(4, thorough ? 120 : 50);
    if (kind == 7) {
        // the cluster is built in key order (head of the cluster first), then taken apart from the front
        for (int i = 0; i < nkeys; i++) p.add("D", "put", {i});
        int nrm = (int)r.range(1, 6);
        for (int i = 0; i < nrm; i++) { p.add("D", "remove", {(long)r.below(4)}); p.add("D", "get", {(long)(nkeys - 1 - (int)r.below(4))}); }
    }
    if (kind == 5) {
        // fill phase forcing growth
        int fill = (int)r.range(nkeys / 2, nkeys);
        for (int i = 0; i < fill; i++) p.add("D", "put", {i});
    }
    int w[] = {30, 4, 8, 14, 10, 14, 3, 2, 1};   // put putsame get remove iterate itr clear free new
    if (r.chance(0.3)) { w[4] = 25; w[5] = 25; }
    for (int i = 0; i < nops; i++) {
        if (faults && r.chance(0.15)) p.add("D", "fail", {(long)r.below(3)});
        switch (r.weighted(w, 9)) {
        case 0: p.add("D", "put", {(long)r.below(nkeys)}); break;
        case 1: p.add("D", "putsame", {(long)r.below(nkeys)}); break;
        case 2: p.add("D", "get", {(long)r.below(nkeys)}); break;
        case 3: p.add("D", "remove", {(long)r.below(nkeys)}); break;
        case 4: p.add("D", "iterate", {(long)r.below(100000), (long)(r.chance(0.5) ? r.below(101) : 0), r.chance(0.2) ? (long)r.below(6) : -1, r.chance(0.5) ? 1 : -1}); break;
        case 5: p.add("D", "itr", {(long)r.below(100000), (long)(r.chance(0.6) ? r.below(101) : 0), (long)(r.chance(0.3) ? r.below(40) : 0), r.chance(0.15) ? (long)r.below(6) : -1, (long)(r.chance(0.3) ? r.below(101) : 0)}); break;
        case 6: p.add("D", "clear"); break;
        case 7: p.add("D", "free"); break;
        case 8: p.add("D", "new", {(long)r.below(4) | (r.chance(0.5) ? (long)M_MAP_VAL_ALLOW_UPDATE : 0), r.chance(0.8) ? 1 : 0}); break;
        }
    }
    return p;
}
