// simthr: thread pool (C06) and several contexts on several threads (C14).
#include "thr.h"

Stats g_stats;

struct ThrEngine : Engine {
    Program generate(const std::string &campaign, uint64_t seed, bool thorough) override {
        if (campaign == "C06") return gen_pool(seed, thorough);
        if (campaign.rfind("C14", 0) == 0) return gen_ctxs(campaign, seed, thorough);
        fprintf(stderr, "simthr: unknown campaign %s\n", campaign.c_str());
        _exit(2);
    }
    RunResult execute(const Program &p, bool trace) override {
        std::string c = p.gets("campaign");
        if (c == "C06") return run_pool(p, trace);
        if (c.rfind("C14", 0) == 0) return run_ctxs(p, trace);
        fprintf(stderr, "simthr: unknown campaign %s\n", c.c_str());
        _exit(2);
    }
};

extern "C" const char *__asan_default_options() { return "exitcode=77:detect_leaks=0:abort_on_error=0:allocator_may_return_null=1:handle_segv=1:detect_stack_use_after_return=0"; }
extern "C" const char *__ubsan_default_options() { return "print_stacktrace=1:halt_on_error=1:exitcode=77"; }

int main(int argc, char **argv) {
#ifdef SIM_BUILD_RACE
    sim::g_race_build = true;
#endif
    ThrEngine e;
    return worker_main(argc, argv, e);
}
