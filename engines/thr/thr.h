// simthr: multi-threaded campaigns under the baton scheduler (C06 thread pool, C14 several contexts).
#pragma once
#include "../common/worker.h"
#include <cstdint>
#include <cstring>
#include <string>
#include <vector>
#include <deque>
#include <map>
#include <set>
#include <algorithm>

extern "C" {
#include <module/thpool/thpool.h>
#include <module/mod.h>
#include <module/ctx.h>
#include <module/mem/mem.h>
void *sk_malloc(size_t n);
void *sk_calloc(size_t a, size_t b);
void sk_free(void *p);
int m_set_memhook(void *(*_malloc)(size_t), void *(*_calloc)(size_t, size_t), void (*_free)(void *));
}

#define VIOL(prop, sig, ...) sim::violation(prop, sig, __VA_ARGS__)

Program gen_pool(uint64_t seed, bool thorough);
RunResult run_pool(const Program &p, bool trace);
Program gen_ctxs(const std::string &campaign, uint64_t seed, bool thorough);
RunResult run_ctxs(const Program &p, bool trace);
