// C06: the thread pool under the baton scheduler.
//
// Threads of a run: main (creates the pool, frees it), 1..3 submitters, and the pool's own workers
// (real thpool.c code; its pthread calls arrive in the modelled mutex/cond/create/join layer).
// Program text: header knobs + ops  "<who> <op> args"  with who = F (the creating/freeing thread) or s<k>.
//   s<k> add <yields> <sleep_ns> <afail>   submit a task whose body yields/sleeps; afail >= 0: the afail-th allocation from now fails
//   s<k> len | clear | yield | sleep <ns>
//   F    yield | sleep <ns> | len          (before the barrier)
//   F    post_yield | post_sleep <ns>      (between barrier and free)
//   F    linger <ns>                        (after free returned: give late workers their chance)
#include "thr.h"

using sim::R;

namespace {

struct TaskRec {
    uint32_t magic = 0x7a5c0de1;
    int id = 0;
    int submitter = 0;
    int yields = 0;
    uint64_t sleep_ns = 0;
    uint64_t add_invoke = 0, add_return = 0;
    int add_rc = -9999;          // -9999: add has not returned (yet)
    bool fault_in_add = false;   // an injected allocation failure fired while this add was in progress (anywhere)
    int started = 0;
    uint64_t start_gseq = 0, finish_gseq = 0;
    int worker = -1;
};

struct PoolWorld {
    m_thpool_t *pool = nullptr;
    int nthreads = 1;
    int flags = 0;
    bool wait_all = true;
    std::deque<TaskRec> tasks;
    int running = 0;
    int max_running = 0;
    bool free_entered = false, free_returned = false;
    uint64_t shutdown_lock_gseq = 0;             // the freeing thread's first acquisition of the pool lock inside m_thpool_free: shutdown is set under it
    std::map<int, uint64_t> last_lock;           // per thread: its latest acquisition of a pool mutex
    uint64_t free_return_gseq = 0;
    std::vector<uint64_t> clear_ok_returns;    // gseq at which a successful clear returned
    int clears_invoked = 0;
    int adds_invoked = 0, adds_ok = 0, starts = 0, finishes = 0;
    std::vector<std::vector<const Op *>> sub_ops;
    uint64_t alloc_failed_at_start = 0;
    bool any_fault = false;
};
PoolWorld *PW;

void *task_body(void *arg) {
    TaskRec *t = (TaskRec *)arg;
    bool ours = false;
    for (auto &x : PW->tasks) if (&x == t) ours = true;
    oracle_eval("C06.own-argument");
    if (!ours || t->magic != 0x7a5c0de1) VIOL("C06", "C06:wrong-argument", "a task was called with an argument (%p) that no submitter passed", arg);
    oracle_eval("C06.at-most-once");
    if (++t->started > 1) VIOL("C06", "C06:task-ran-twice", "task %d (submitter %d) was started a second time", t->id, t->submitter);
    if (t->add_rc != -9999 && t->add_rc != 0) VIOL("C06", "C06:refused-task-ran", "task %d runs although m_thpool_add returned %d for it", t->id, t->add_rc);
    if (PW->free_returned) VIOL("C06", "C06:task-started-after-free", "task %d was started after m_thpool_free returned", t->id);
    // free without wait-all: a task not started when the shutdown was requested is discarded. The request is made under the pool lock; a
    // worker that took the lock after that (woke up from its wait, or came back for the next task) has seen it and must not start anything.
    // (A worker that dequeued before the request and starts the task only now has not held the lock since: legitimate.)
    if (PW->free_entered && !PW->wait_all && PW->shutdown_lock_gseq) {
        oracle_eval("C06.discarded-never-run");
        auto it = PW->last_lock.find(sim::self_id());
        if (it != PW->last_lock.end() && it->second > PW->shutdown_lock_gseq)
            VIOL("C06", "C06:discarded-task-ran", "task %d was started by a worker that acquired the pool lock after m_thpool_free(no wait-all) had requested the shutdown under it", t->id);
    }
    t->start_gseq = ++R->gseq;
    t->worker = sim::self_id();
    PW->starts++;
    PW->running++;
    if (PW->running > PW->max_running) PW->max_running = PW->running;
    oracle_eval("C06.concurrency-bound");
    if (PW->running > PW->nthreads) VIOL("C06", "C06:too-many-concurrent-tasks", "%d tasks run concurrently on a pool of %d threads", PW->running, PW->nthreads);
    sim::tr("task_start", t->id, t->worker);
    for (int i = 0; i < t->yields; i++) sim::yield_point("task");
    if (t->sleep_ns) sim::sleep_ns(t->sleep_ns);
    PW->running--;
    PW->finishes++;
    t->finish_gseq = ++R->gseq;
    sim::tr("task_finish", t->id, t->worker);
    if (PW->free_returned) VIOL("C06", "C06:free-returned-with-running-task", "task %d was still running when m_thpool_free returned", t->id);
    return nullptr;
}

void check_len(ssize_t len, int adds_ret_ok_at_invoke, int starts_at_invoke) {
    oracle_eval("C06.length-bounds");
    // enqueued <= adds invoked by the time we return; dequeued >= tasks started when we were called
    long hi = (long)PW->adds_invoked - starts_at_invoke;
    if (len > hi) VIOL("C06", "C06:length-too-large", "m_thpool_length returned %zd with %d submissions made and %d tasks started", len, PW->adds_invoked, starts_at_invoke);
    // at most one dequeued-but-not-started task per worker; cleared tasks unknown -> only without clear
    if (PW->clears_invoked == 0 && !PW->any_fault) {
        long lo = (long)adds_ret_ok_at_invoke - PW->starts - PW->nthreads;
        if (len < lo) VIOL("C06", "C06:length-too-small", "m_thpool_length returned %zd with %d accepted submissions, %d tasks started, %d threads", len, adds_ret_ok_at_invoke, PW->starts, PW->nthreads);
    }
}

void exec_common(const Op &op) {
    const std::string &n = op.name;
    if (n == "yield" || n == "post_yield") sim::yield_point("user");
    else if (n == "sleep" || n == "post_sleep" || n == "linger") sim::sleep_ns((uint64_t)std::max(1L, op.arg(0)));
    else if (n == "len") {
        if (!PW->pool || PW->free_entered) return;
        int a = PW->adds_ok, s = PW->starts;
        ssize_t l = m_thpool_length(PW->pool);
        sim::tr("len", (long)l);
        if (l < 0) VIOL("C06", "C06:length-failed", "m_thpool_length returned %zd on a live pool", l);
        check_len(l, a, s);
    } else if (n == "clear") {
        if (!PW->pool || PW->free_entered) return;
        PW->clears_invoked++;
        ssize_t rc = m_thpool_clear(PW->pool);
        sim::tr("clear", (long)rc);
        if (rc == 0) PW->clear_ok_returns.push_back(++R->gseq);
        else if (rc != -EINVAL) VIOL("C06", "C06:clear-failed", "m_thpool_clear returned %zd", rc);
    }
}

void *submitter_fn(void *arg) {
    int k = (int)(intptr_t)arg;
    for (const Op *opp : PW->sub_ops[k]) {
        const Op &op = *opp;
        if (op.name == "add") {
            PW->tasks.emplace_back();
            TaskRec &t = PW->tasks.back();
            t.id = (int)PW->tasks.size() - 1;
            t.submitter = k;
            t.yields = (int)std::min(20L, std::max(0L, op.arg(0)));
            t.sleep_ns = (uint64_t)std::max(0L, op.arg(1));
            long afail = op.arg(2, -1);
            t.add_invoke = ++R->gseq;
            PW->adds_invoked++;
            uint64_t failed_before = R->a.failed;
            if (afail >= 0) { R->a.fail_at = afail; PW->any_fault = true; }
            int rc = m_thpool_add(PW->pool, task_body, &t);
            if (afail >= 0 && R->a.failed == failed_before) R->a.fail_at = -1;   // did not fire inside: disarm
            t.fault_in_add = R->a.failed > failed_before;
            t.add_rc = rc;
            t.add_return = ++R->gseq;
            sim::tr("add", t.id, rc);
            if (rc == 0) PW->adds_ok++;
            oracle_eval("C06.add-result");
            if (rc != 0 && !PW->any_fault && R->fail_create_at < 0 && !R->ctr.faults.count("pthread_create_fail"))
                VIOL("C06", "C06:add-refused", "m_thpool_add returned %d on a live pool without any injected failure", rc);
            if (rc != 0 && t.started) VIOL("C06", "C06:refused-task-ran", "task %d ran although m_thpool_add returned %d for it", t.id, rc);
        } else exec_common(op);
    }
    return nullptr;
}

void driver(const Program &p) {
    PoolWorld &w = *PW;
    long new_afail = p.get("new_afail", -1);
    long cfail = p.get("create_fail", -1);
    if (cfail >= 0) { R->fail_create_at = cfail; w.any_fault = true; }
    if (new_afail >= 0) { R->a.fail_at = new_afail; w.any_fault = true; }
    uint64_t failed_before = R->a.failed;
    w.pool = m_thpool_new((uint8_t)w.nthreads, (m_thpool_flags)w.flags);
    bool fired = R->a.failed > failed_before || R->ctr.faults.count("pthread_create_fail");
    if (new_afail >= 0 && R->a.failed == failed_before) R->a.fail_at = -1;
    sim::tr("pool_new", w.nthreads, w.flags, w.pool != nullptr);
    if (!w.pool) {
        if (!fired) VIOL("C06", "C06:new-failed", "m_thpool_new(%d, %d) returned NULL without any injected failure", w.nthreads, w.flags);
        return;   // refused creation: conservation is checked at the end of the run
    }
    std::vector<int> subs;
    for (size_t k = 0; k < w.sub_ops.size(); k++) subs.push_back(sim::thread_create(submitter_fn, (void *)(intptr_t)k, false, "sub"));
    for (auto &op : p.ops) if (op.where == "F" && (op.name == "yield" || op.name == "sleep" || op.name == "len")) exec_common(op);
    // caller obligation: the pool is freed only after every m_thpool_add call has returned
    for (int t : subs) sim::thread_join(t);
    for (auto &op : p.ops) if (op.where == "F" && (op.name == "post_yield" || op.name == "post_sleep")) exec_common(op);
    w.free_entered = true;
    sim::tr("free_enter", w.wait_all);
    long free_afail = p.get("free_afail", -1);
    if (free_afail >= 0) { R->a.fail_at = free_afail; w.any_fault = true; }
    int rc = m_thpool_free(&w.pool, w.wait_all);
    R->a.fail_at = -1;
    w.free_returned = true;
    w.free_return_gseq = ++R->gseq;
    sim::tr("free_return", rc);
    oracle_eval("C06.free-result");
    if (rc != 0) VIOL("C06", "C06:free-failed", "m_thpool_free returned %d", rc);
    if (w.pool) VIOL("C06", "C06:free-handle-not-cleared", "m_thpool_free left the caller's handle set");
    // (c) what free promises at its return
    for (auto &t : w.tasks) {
        if (t.started && !t.finish_gseq)
            VIOL("C06", "C06:free-returned-with-running-task", "m_thpool_free(%s) returned while task %d is still running", w.wait_all ? "wait_all" : "no wait", t.id);
    }
    if (w.wait_all) {
        oracle_eval("C06.wait-all-ran-everything");
        for (auto &t : w.tasks) {
            if (t.add_rc != 0 || t.started) continue;
            bool cleared = false;
            for (uint64_t g : w.clear_ok_returns) if (g > t.add_invoke) cleared = true;
            if (cleared) continue;
            VIOL("C06", t.fault_in_add ? "C06:accepted-task-lost-on-allocation-failure" : "C06:accepted-task-never-ran",
                 "m_thpool_free(wait_all) returned but task %d, accepted by m_thpool_add (returned 0), never ran%s", t.id,
                 t.fault_in_add ? " (an allocation failed inside that m_thpool_add call)" : "");
        }
    }
    for (auto &op : p.ops) if (op.where == "F" && op.name == "linger") exec_common(op);
}

} // namespace

RunResult run_pool(const Program &p, bool trace) {
    sim::Config c;
    c.seed = p.getu("seed", 1);
    c.sched = (int)p.get("sched", sim::S_RANDOM);
    c.switch_p = p.getd("switch_p", 0.3);
    c.pct_depth = (int)p.get("pct_depth", 3);
    c.spurious_p = p.getd("spurious_p", 0);
    c.max_steps = p.getu("max_steps", 200000);
    c.trace = trace;
    c.preempt_mem = sim::g_race_build;
    c.preempt_mem_p = p.getd("preempt_mem_p", 0.05);
    sim::g_race_property = "C06";
    sim::run_begin(c);
    install_violation_filter("C06");
    m_set_memhook(sk_malloc, sk_calloc, sk_free);
    PoolWorld w;
    PW = &w;
    R->on_mutex_acquired = [](int tid, const void *) {
        if (!PW) return;
        uint64_t g = ++R->gseq;
        PW->last_lock[tid] = g;
        if (tid == 0 && PW->free_entered && !PW->shutdown_lock_gseq) PW->shutdown_lock_gseq = g;
    };
    w.nthreads = (int)std::min(8L, std::max(1L, p.get("threads", 2)));
    w.flags = (p.get("lazy", 0) ? M_THPOOL_LAZY : 0) | (p.get("detached", 0) ? M_THPOOL_DETACHED : 0);
    w.wait_all = p.get("wait_all", 1) != 0;
    int nsub = (int)std::min(3L, std::max(1L, p.get("submitters", 1)));
    w.sub_ops.resize(nsub);
    for (auto &op : p.ops)
        if (op.where.size() >= 2 && op.where[0] == 's') w.sub_ops[(size_t)(atoi(op.where.c_str() + 1) % nsub)].push_back(&op);
    static const Program *s_p;
    s_p = &p;
    sim::run_main([]() { driver(*s_p); });
    // the run is over: every simulated thread finished or can never run again
    oracle_eval("C06.clean-shutdown");
    for (auto &t : R->threads) {
        if (t->st == sim::Thread::DONE) continue;
        VIOL("C06", "C06:thread-never-finishes", "thread %s is still blocked (%d) after m_thpool_free returned and nothing can wake it", t->name.c_str(), (int)t->why);
    }
    if (R->horizon_hit) R->ctr.probe("horizon_hit");
    for (auto &t : w.tasks) {
        if (t.add_rc != 0 && t.started) VIOL("C06", "C06:refused-task-ran", "task %d ran although m_thpool_add returned %d for it", t.id, t.add_rc);
        if (w.free_returned && t.start_gseq > w.free_return_gseq) VIOL("C06", "C06:task-started-after-free", "task %d was started after m_thpool_free returned", t.id);
    }
    // conservation: everything the pool allocated through the memhook is back
    oracle_eval("C06.nothing-leaked");
    if (R->a.outstanding() != 0) {
        auto live = R->a.live_blocks();
        VIOL("C06", w.any_fault ? "C06:leak-after-injected-failure" : "C06:leak", "%zu block(s) allocated by the pool are still allocated at the end of the run (first: %zu bytes)%s",
             live.size(), live.empty() ? (size_t)0 : live[0].second.size, w.any_fault ? " after an injected allocation/thread-creation failure" : "");
    }
    RunResult rr;
    rr.fp = R->fp;
    rr.nontrivial = w.adds_ok >= 2 && w.starts >= 1 && w.free_returned;
    rr.state_hash = sim::mix64(sim::mix64((uint64_t)w.max_running, (uint64_t)w.flags * 2 + w.wait_all), sim::mix64((uint64_t)std::min(w.starts, 6), (uint64_t)std::min((int)w.adds_ok - w.starts, 4)));
    if (w.max_running >= 2) R->ctr.probe("tasks_ran_concurrently");
    if (w.free_returned && w.adds_ok > w.starts) R->ctr.probe("tasks_discarded_by_free_or_clear");
    if (!w.clear_ok_returns.empty()) R->ctr.probe("clear_removed_tasks");
    if (w.flags & M_THPOOL_DETACHED) R->ctr.probe("detached_pool");
    if (w.flags & M_THPOOL_LAZY) R->ctr.probe("lazy_pool");
    R->ctr.probe("pool_threads", R->threads.size() - 1 - w.sub_ops.size());
    if (sim::g_race_build) {
        uint64_t acc, pre;
        sim::race_stats(acc, pre);
        R->ctr.probe("instrumented_accesses", acc);
        if (pre) R->ctr.fault("preempt_at_memory_access", pre);
    }
    g_stats.absorb_run();
    PW = nullptr;
    sim::run_end();
    return rr;
}

Program gen_pool(uint64_t seed, bool thorough) {
    sim::Rng r = sim::fork_rng(seed, "gen-pool");
    Program p;
    p.set("property", "C06");
    p.set("engine", "simthr");
    p.set("campaign", "C06");
    p.set("seed", (long)seed);
    static const int scheds[] = {sim::S_RANDOM, sim::S_RANDOM, sim::S_PCT, sim::S_PCT, sim::S_RR, sim::S_RTB};
    p.set("sched", scheds[r.below(6)]);
    p.setd("switch_p", r.chance(0.5) ? 0.3 : (r.chance(0.5) ? 0.05 : 0.7));
    p.set("pct_depth", (long)r.range(1, 4));
    p.setd("spurious_p", r.chance(0.4) ? (r.chance(0.5) ? 0.05 : 0.3) : 0.0);
    p.set("threads", (long)r.range(1, 4));
    p.set("lazy", r.chance(0.4) ? 1 : 0);
    p.set("detached", r.chance(0.35) ? 1 : 0);
    p.set("wait_all", r.chance(0.5) ? 1 : 0);
    int nsub = (int)r.range(1, 3);
    p.set("submitters", nsub);
    bool faults = r.chance(0.15);       // allocation failures inside m_thpool_add / m_thpool_new
    bool cfaults = r.chance(0.05);      // exploratory: thread creation failure
    p.set("new_afail", faults && r.chance(0.3) ? (long)r.below(8) : -1L);
    p.set("create_fail", cfaults ? (long)r.below(4) : -1L);
    p.set("free_afail", faults && r.chance(0.3) ? (long)r.below(3) : -1L);
    p.setd("preempt_mem_p", r.chance(0.5) ? 0.05 : 0.2);
#ifdef SIM_BUILD_RACE
    p.set("build", "race");
#else
    p.set("build", "asan");
#endif
    int ntasks = (int)r.range(1, thorough ? 16 : 10);
    bool use_clear = r.chance(0.2);
    for (int i = 0; i < ntasks; i++) {
        std::string who = "s" + std::to_string(r.below(nsub));
        long yields = r.chance(0.5) ? 0 : (long)r.below(4);
        long sleep = r.chance(0.25) ? (long)r.range(1, 5000) : 0;
        p.add(who, "add", {yields, sleep, faults && r.chance(0.25) ? (long)r.below(3) : -1L});
        if (r.chance(0.15)) p.add(who, "yield");
        if (r.chance(0.1)) p.add(who, "sleep", {(long)r.range(1, 3000)});
        if (r.chance(0.1)) p.add(who, "len");
        if (use_clear && r.chance(0.15)) p.add(who, "clear");
    }
    if (r.chance(0.3)) p.add("F", "yield");
    if (r.chance(0.2)) p.add("F", "len");
    if (r.chance(0.3)) p.add("F", "post_yield");
    if (r.chance(0.3)) p.add("F", "post_sleep", {(long)r.range(1, 4000)});
    p.add("F", "linger", {(long)r.range(1000, 20000)});
    return p;
}
