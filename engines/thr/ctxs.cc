// C14: several contexts, each on its own simulated thread.
//
// One program describes 1..3 context threads c0..c2 (a thread may also stay without a context). Phases, separated by barriers:
//   setup    each thread registers its context and modules, subscriptions, timers, (race build: tasks), sends a few messages
//   foreign  while every context is quiescent, threads issue module / pub-sub calls on handles that belong to ANOTHER thread's
//            context: each must fail with a permission error and change nothing (confinement)
//   loop     every context loops concurrently until its own event budget / deadline timer ends it
//   teardown each thread deregisters its context
// Oracles: (1) confinement: return code and before/after snapshot of the target context; (2) independence: the per-context
// observable trace of the concurrent run equals the trace of the same context run alone (asan build; kernel choices per thread
// come from a stream named after the thread, clock cost 0); (3) race build: happens-before race detector over library code with
// pre-emption at memory accesses.
#include "thr.h"
#include <sstream>

using sim::R;

namespace {

const char *TOPICS[] = {"alpha", "beta", "gamma/1", "gamma/2"};
const char *SUBS[] = {"alpha", "beta", "gamma/.*", "gamma/2"};
const int NTOP = 4;

struct CtxW;
struct ModRec {
    CtxW *cw = nullptr;
    int idx = 0;
    m_mod_t *h = nullptr;
    m_mod_t *raw = nullptr;   // the handle it was registered with (still what messages it sent carry after it has been deregistered)
    std::string name;
    int events = 0;
    bool deregistered = false;
};
struct CtxW {
    int k = 0;
    bool want_ctx = true;
    bool has_ctx = false;
    std::deque<ModRec> mods;
    std::vector<std::string> obs;
    std::vector<const Op *> setup, foreign, post;
    int budget = 6;          // handler invocations after which the loop is asked to quit
    int handled = 0;
    bool quit_asked = false;
    int tid = -1;
    std::deque<long> payloads;   // values travel as pointers to these cells
    int tasks_pending = 0;
};

struct World14 {
    std::deque<CtxW> ctxs;
    int nthreads = 0;
    int arrived = 0, generation = 0;
    std::vector<int> waiting;
    std::vector<uint32_t> barrier_vc;
    bool alone = false;
    int only = -1;
    int foreign_calls = 0, foreign_ok = 0;
    bool race_mode = false;
    // one "window": a foreign thread makes its call while the owner thread is parked INSIDE a callback of the target module
    struct Window { const Op *op = nullptr; int foreign_k = -1, owner_k = -1; int state = 0; int foreign_tid = -1, owner_tid = -1; bool owner_loop_done = false; } win;   // state: 0 none, 1 requested, 2 open, 3 served, 4 cancelled
    std::vector<uint32_t> win_vc;
};
World14 *G;

void obs(CtxW &c, const char *fmt, ...) __attribute__((format(printf, 2, 3)));
void obs(CtxW &c, const char *fmt, ...) {
    char buf[256];
    va_list ap;
    va_start(ap, fmt);
    vsnprintf(buf, sizeof buf, fmt, ap);
    va_end(ap);
    c.obs.push_back(buf);
}

void barrier() {
    if (G->nthreads <= 1) return;
    sim::hb_release(G->barrier_vc);
    int gen = G->generation;
    if (++G->arrived == G->nthreads) {
        G->arrived = 0;
        G->generation++;
        std::vector<int> w = G->waiting;
        G->waiting.clear();
        for (int t : w) sim::unpark(t);
    } else {
        G->waiting.push_back(sim::self_id());
        while (G->generation == gen) sim::park();
    }
    sim::hb_acquire(G->barrier_vc);
}

ModRec *rec_of(m_mod_t *self) {
    for (auto &c : G->ctxs) for (auto &m : c.mods) if (m.h == self) return &m;
    for (auto &c : G->ctxs) for (auto &m : c.mods) if (m.raw == self && m.deregistered) return &m;
    return nullptr;
}

bool cb_start(m_mod_t *self) {
    ModRec *m = rec_of(self);
    if (m) obs(*m->cw, "on_start %s", m->name.c_str());
    return true;
}
void cb_stop(m_mod_t *self) {
    ModRec *m = rec_of(self);
    if (m) obs(*m->cw, "on_stop %s", m->name.c_str());
}
void cb_evt(m_mod_t *self, const m_queue_t *const evts) {
    ModRec *m = rec_of(self);
    if (!m) VIOL("C14", "C14:handler-for-unknown-module", "an event handler ran for a module handle no context thread registered");
    CtxW &c = *m->cw;
    if (!G->alone && G->win.state == 1 && G->win.owner_k == c.k && m->name != "deadline") {
        G->win.state = 2;
        G->win.owner_tid = sim::self_id();
        sim::hb_release(G->win_vc);
        sim::unpark(G->win.foreign_tid);
        while (G->win.state == 2) sim::park();
        sim::hb_acquire(G->win_vc);
    }
    oracle_eval("C14.handler-on-owner-thread");
    if (sim::self_id() != c.tid)
        VIOL("C14", "C14:handler-on-foreign-thread", "handler of module %s (context %d) ran on thread %d, its context lives on thread %d", m->name.c_str(), c.k, sim::self_id(), c.tid);
    for (m_queue_itr_t *it = m_queue_itr_new(evts); it; m_queue_itr_next(&it)) {
        const m_evt_t *e = (const m_evt_t *)m_queue_itr_get_data(it);
        m->events++;
        switch (e->type) {
        case M_SRC_TYPE_PS: {
            const m_evt_ps_t *p = e->ps_evt;
            ModRec *s = p->sender ? rec_of((m_mod_t *)p->sender) : nullptr;
            if (p->sender && (!s || s->cw != &c))
                VIOL("C14", "C14:message-from-another-context", "module %s (context %d) received a message whose sender belongs to %s", m->name.c_str(), c.k, s ? "another context" : "no known context");
            long val = -1;
            if (p->data) {
                bool ours = false;
                for (auto &cell : c.payloads) if (&cell == p->data) ours = true;
                if (!ours) VIOL("C14", "C14:payload-from-another-context", "module %s (context %d) received a payload no module of its context sent", m->name.c_str(), c.k);
                val = *(const long *)p->data;
            }
            obs(c, "evt %s ps sys=%d topic=%s from=%s val=%ld", m->name.c_str(), (int)p->system, p->topic ? p->topic : "-", s ? s->name.c_str() : "-", val);
            break;
        }
        case M_SRC_TYPE_TMR: {
            obs(c, "evt %s tmr ns=%lu", m->name.c_str(), (unsigned long)e->tmr_evt->ns);
            if (m->name != "deadline") {   // traffic from inside the loop: every tick is published
                c.payloads.push_back(m->events);
                int rc = m_mod_ps_publish(self, TOPICS[m->events % NTOP], &c.payloads.back(), (m_ps_flags)0);
                obs(c, "pub-from-handler %s %s rc=%d", m->name.c_str(), TOPICS[m->events % NTOP], rc);
            }
            break;
        }
        case M_SRC_TYPE_TASK: obs(c, "evt %s task tid=%u ret=%d", m->name.c_str(), e->task_evt->tid, e->task_evt->retval); c.tasks_pending--; break;
        case M_SRC_TYPE_PATH: obs(c, "evt %s path=%s events=%u", m->name.c_str(), e->path_evt->path ? e->path_evt->path : "-", e->path_evt->events); break;
        default: obs(c, "evt %s type=%d", m->name.c_str(), (int)e->type); break;
        }
    }
    c.handled++;
    bool deadline = m->name == "deadline";
    if ((c.handled >= c.budget || deadline) && !c.quit_asked && c.tasks_pending <= 0) {
        int rc = m_ctx_quit(0);
        if (rc == 0) c.quit_asked = true;
    } else if (deadline && !c.quit_asked) {
        // a task is still on its thread: ask again a little later (stopping now would be the known task-thread finding)
        m_src_tmr_t t; t.clock_id = CLOCK_MONOTONIC; t.ns = 5000000ULL;
        m_mod_src_register_tmr(self, &t, M_SRC_ONESHOT, nullptr);
    }
}
const m_mod_hook_t HOOK = {cb_start, nullptr, cb_evt, cb_stop};

int task_body(void *up) {
    long dur = (long)(intptr_t)up;
    if (dur > 0) sim::sleep_ns((uint64_t)dur);
    return (int)(dur % 7);
}

ModRec *pick(CtxW &c, long i) {
    if (c.mods.empty()) return nullptr;
    size_t n = c.mods.size();
    return &c.mods[(size_t)(((i % (long)n) + (long)n) % (long)n)];
}

void exec_own(CtxW &c, const Op &op) {
    std::string n = op.name;
    if (n.rfind("post_", 0) == 0) n = n.substr(5);   // the same operation, made after the context's own loop has returned (others may still be looping)
    if (n == "reg") {
        if (!c.has_ctx) return;
        c.mods.emplace_back();
        ModRec &m = c.mods.back();
        m.cw = &c;
        m.idx = (int)c.mods.size() - 1;
        m.name = "mod" + std::to_string(op.arg(0) % 4);   // the same names are used in every context on purpose
        for (auto &o : c.mods) if (&o != &m && o.name == m.name && !o.deregistered) { c.mods.pop_back(); return; }
        // (some modules hide the context from their own callbacks: whose thread a call comes from is decided all the same)
        int rc = m_mod_register(m.name.c_str(), &m.h, &HOOK, (m_mod_flags)((op.arg(1, 0) & 1) ? M_MOD_DENY_CTX : 0), nullptr);
        m.raw = m.h;
        obs(c, "reg %s rc=%d", m.name.c_str(), rc);
        if (rc != 0) { oracle_eval("C14.own-call-succeeds"); VIOL("C14", "C14:own-register-refused", "context %d: registering module %s (a free name in this context) returned %d", c.k, m.name.c_str(), rc); }
        return;
    }
    ModRec *m = pick(c, op.arg(0));
    if (!m || !m->h || m->deregistered) return;
    if (n == "sub") {
        int rc = m_mod_ps_subscribe(m->h, SUBS[op.arg(1) % NTOP], (m_src_flags)0, nullptr);
        obs(c, "sub %s %s rc=%d", m->name.c_str(), SUBS[op.arg(1) % NTOP], rc);
    } else if (n == "tmr") {
        m_src_tmr_t t; t.clock_id = CLOCK_MONOTONIC; t.ns = (uint64_t)std::max(1L, op.arg(1)) * 1000000ULL;
        int rc = m_mod_src_register_tmr(m->h, &t, (m_src_flags)(op.arg(2) ? M_SRC_ONESHOT : 0), nullptr);
        obs(c, "tmr %s %ldms rc=%d", m->name.c_str(), op.arg(1), rc);
    } else if (n == "tell") {
        ModRec *to = pick(c, op.arg(1));
        if (!to || !to->h || to->deregistered) return;
        c.payloads.push_back(op.arg(2));
        int rc = m_mod_ps_tell(m->h, to->h, &c.payloads.back(), (m_ps_flags)0);
        obs(c, "tell %s->%s %ld rc=%d", m->name.c_str(), to->name.c_str(), op.arg(2), rc);
    } else if (n == "pub") {
        c.payloads.push_back(op.arg(2));
        int rc = m_mod_ps_publish(m->h, TOPICS[op.arg(1) % NTOP], &c.payloads.back(), (m_ps_flags)0);
        obs(c, "pub %s %s %ld rc=%d", m->name.c_str(), TOPICS[op.arg(1) % NTOP], op.arg(2), rc);
    } else if (n == "path") {
        // a path source on a path of this context's own, touched by the environment a little later (twice)
        static const char *PATHS[3][2] = {{"/c0/a", "/c0/b"}, {"/c1/a", "/c1/b"}, {"/c2/a", "/c2/b"}};
        const char *path = PATHS[c.k % 3][op.arg(1) % 2];
        m_src_path_t pt; pt.path = path; pt.events = 0x2 | 0x100;
        int rc = m_mod_src_register_path(m->h, &pt, (m_src_flags)0, nullptr);
        obs(c, "path %s %s rc=%d", m->name.c_str(), path, rc);
        if (rc == 0) {
            uint64_t dt = (uint64_t)std::max(1L, op.arg(2)) * 1000000ULL;
            sim::at_time(R->now + dt, [path]() { R->k.env_touch(path, 0x2, false); });
            sim::at_time(R->now + 2 * dt, [path]() { R->k.env_touch(path, 0x100, true); });
        }
    } else if (n == "task") {
        if (!G->race_mode) return;   // a task brings threads whose schedule is not a function of this context alone
        m_src_task_t tk; tk.tid = (int)(op.arg(1) % 5); tk.fn = task_body;
        int rc = m_mod_src_register_task(m->h, &tk, (m_src_flags)0, (void *)(intptr_t)std::max(0L, op.arg(2)));
        if (rc == 0) c.tasks_pending++;
        obs(c, "task %s rc=%d", m->name.c_str(), rc);
    } else if (n == "start") {
        int rc = m_mod_start(m->h);
        obs(c, "start %s rc=%d", m->name.c_str(), rc);
    } else if (n == "pause") {
        int rc = m_mod_pause(m->h);
        obs(c, "pause %s rc=%d", m->name.c_str(), rc);
    } else if (n == "resume") {
        int rc = m_mod_resume(m->h);
        obs(c, "resume %s rc=%d", m->name.c_str(), rc);
    } else if (n == "stop") {
        if (m->name == "deadline") return;
        int rc = m_mod_stop(m->h);
        obs(c, "stop %s rc=%d", m->name.c_str(), rc);
    } else if (n == "dereg") {
        // whatever the module still holds (descriptors, memory) goes now - and nothing of anybody else's
        if (m->name == "deadline") return;
        int rc = m_mod_deregister(&m->h);
        obs(c, "dereg %s rc=%d", m->name.c_str(), rc);
        if (rc == 0) m->deregistered = true;
    }
}

// observable state of one context as seen from outside, for the "no effect" clause
std::string snapshot_ctx(CtxW &c, bool others_running = false) {
    std::ostringstream o;
    for (auto &m : c.mods) {
        if (!m.h) continue;
        o << m.name << ":" << (int)m_mod_state(m.h) << ":" << m.events << ";";
    }
    if (others_running) return o.str();   // other contexts are looping: allocator, descriptor table and pipes are not the target's alone
    bool pool_threads = false;   // task threads of some context are at work: allocator and descriptor traffic is theirs
    for (auto &t : R->threads) if (t->name.rfind("lib", 0) == 0) pool_threads = true;
    if (!pool_threads) o << "alloc=" << R->a.outstanding() << ";";
    o << "fds=" << R->k.open_count(sim::OWN_LIB) << ";";
    for (auto &f : R->k.all_files()) {
        if (f->kind == sim::F_EPOLL) o << "ep" << f->regs.size() << ";";
        if (f->pipe) o << "p" << f->pipe->buf.size() << ";";
        if (f->kind == sim::F_EVENTFD && !pool_threads) o << "e" << f->counter << ";";
    }
    return o.str();
}

static void dummy_evt(m_mod_t *, const m_queue_t *const) {}

// a call on a module of context `t` issued by thread `c`
size_t foreign_target(CtxW &c, const Op &op) {
    size_t nt = G->ctxs.size();
    return (size_t)((c.k + 1 + (op.arg(0) % (long)(nt - 1) + (long)(nt - 1)) % (long)(nt - 1)) % (long)nt);
}
void exec_foreign(CtxW &c, const Op &op, bool in_owner_callback = false) {
    if (G->alone) return;
    size_t nt = G->ctxs.size();
    if (nt < 2) return;
    CtxW &t = G->ctxs[foreign_target(c, op)];
    if (&t == &c) return;
    ModRec *m = pick(t, op.arg(1));
    if (in_owner_callback) {
        // the module whose callback the owner is parked in
        for (auto &mm : t.mods) if (mm.h && G->win.state == 2) { (void)mm; }
    }
    if (!m || !m->h) return;
    ModRec *mine = pick(c, op.arg(3));
    int kind = (int)(((op.arg(2) % 34) + 34) % 34);
    std::string before = snapshot_ctx(t, in_owner_callback);
    uint64_t io_before = R->k.ios.size();
    long rc = 0;
    const char *what = "?";
    static long cell = 7;
    m_src_tmr_t tm; tm.clock_id = CLOCK_MONOTONIC; tm.ns = 3000000;
    m_src_sgn_t sg; sg.signo = 10;
    m_src_path_t pt; pt.path = "/tmp/x"; pt.events = 2;
    m_src_pid_t pd; pd.pid = 100; pd.events = 0;
    m_src_task_t tk; tk.tid = 1; tk.fn = task_body;
    m_src_thresh_t th; th.inactive_ms = 10; th.activity_freq = 0;
    m_mod_stats_t st;
    bool getter_like = false;
    switch (kind) {
    case 0: what = "m_mod_start"; rc = m_mod_start(m->h); break;
    case 1: what = "m_mod_pause"; rc = m_mod_pause(m->h); break;
    case 2: what = "m_mod_resume"; rc = m_mod_resume(m->h); break;
    case 3: what = "m_mod_stop"; rc = m_mod_stop(m->h); break;
    case 4: { what = "m_mod_deregister"; m_mod_t *copy = m->h; rc = m_mod_deregister(&copy); if (!copy && rc != 0) VIOL("C14", "C14:foreign-deregister-cleared-handle", "refused m_mod_deregister cleared the caller's handle"); break; }
    case 5: { what = "m_mod_bind"; ModRec *o = pick(t, op.arg(1) + 1); rc = m_mod_bind(m->h, o && o->h ? o->h : m->h); break; }
    case 6: what = "m_mod_become"; rc = m_mod_become(m->h, dummy_evt); break;
    case 7: what = "m_mod_unbecome"; rc = m_mod_unbecome(m->h); break;
    case 8: { what = "m_mod_ps_tell"; ModRec *o = pick(t, op.arg(1) + 1); rc = m_mod_ps_tell(m->h, o && o->h ? o->h : m->h, &cell, (m_ps_flags)0); break; }
    case 9: what = "m_mod_ps_publish"; rc = m_mod_ps_publish(m->h, TOPICS[0], &cell, (m_ps_flags)0); break;
    case 10: { what = "m_mod_ps_poisonpill"; ModRec *o = pick(t, op.arg(1) + 1); rc = m_mod_ps_poisonpill(m->h, o && o->h ? o->h : m->h); break; }
    case 11: what = "m_mod_ps_subscribe"; rc = m_mod_ps_subscribe(m->h, "zeta", (m_src_flags)0, nullptr); break;
    case 12: what = "m_mod_ps_unsubscribe"; rc = m_mod_ps_unsubscribe(m->h, SUBS[0]); break;
    case 13: what = "m_mod_unstash"; rc = m_mod_unstash(m->h, 1); break;
    case 14: what = "m_mod_src_len"; rc = m_mod_src_len(m->h, M_SRC_TYPE_TMR); break;
    case 15: what = "m_mod_src_register_fd"; rc = m_mod_src_register_fd(m->h, 3, (m_src_flags)0, nullptr); break;
    case 16: what = "m_mod_src_deregister_fd"; rc = m_mod_src_deregister_fd(m->h, 3); break;
    case 17: what = "m_mod_src_register_tmr"; rc = m_mod_src_register_tmr(m->h, &tm, (m_src_flags)0, nullptr); break;
    case 18: what = "m_mod_src_deregister_tmr"; tm.ns = 2000000; rc = m_mod_src_deregister_tmr(m->h, &tm); break;
    case 19: what = "m_mod_src_register_sgn"; rc = m_mod_src_register_sgn(m->h, &sg, (m_src_flags)0, nullptr); break;
    case 20: what = "m_mod_src_register_path"; rc = m_mod_src_register_path(m->h, &pt, (m_src_flags)0, nullptr); break;
    case 21: what = "m_mod_src_register_pid"; rc = m_mod_src_register_pid(m->h, &pd, (m_src_flags)0, nullptr); break;
    case 22: what = "m_mod_src_register_task"; rc = m_mod_src_register_task(m->h, &tk, (m_src_flags)0, nullptr); break;
    case 23: what = "m_mod_src_register_thresh"; rc = m_mod_src_register_thresh(m->h, &th, (m_src_flags)0, nullptr); break;
    case 24: what = "m_mod_set_batch_size"; rc = m_mod_set_batch_size(m->h, 4); break;
    case 25: what = "m_mod_set_batch_timeout"; rc = m_mod_set_batch_timeout(m->h, 1000000); break;
    case 26: what = "m_mod_set_tokenbucket"; rc = m_mod_set_tokenbucket(m->h, 5, 5); break;
    case 27: what = "m_mod_stats"; rc = m_mod_stats(m->h, &st); getter_like = true; break;
    case 28: { what = "m_mod_lookup"; m_mod_t *f = m_mod_lookup(m->h, m->name.c_str()); rc = f ? 0 : -EPERM; if (f) m_mem_unref(f); getter_like = true; break; }
    case 29: what = "m_mod_dump"; rc = m_mod_dump(m->h); getter_like = true; break;
    case 30: what = "m_mod_log"; rc = m_mod_log(m->h, "x"); getter_like = true; break;
    // addressing a module of another context from one's own module
    case 31: if (!mine || !mine->h) return; what = "m_mod_ps_tell(own module -> module of another context)"; rc = m_mod_ps_tell(mine->h, m->h, &cell, (m_ps_flags)0); break;
    case 32: if (!mine || !mine->h) return; what = "m_mod_ps_poisonpill(own module -> module of another context)"; rc = m_mod_ps_poisonpill(mine->h, m->h); break;
    case 33: if (!mine || !mine->h) return; what = "m_mod_bind(own module, module of another context)"; rc = m_mod_bind(mine->h, m->h); break;
    }
    (void)getter_like;
    G->foreign_calls++;
    if (in_owner_callback) R->ctr.probe("foreign_call_during_owner_callback");
    sim::tr("foreign", c.k, t.k, kind);
    oracle_eval("C14.foreign-call-refused");
    if (rc >= 0) {
        char sig[160];
        snprintf(sig, sizeof sig, "C14:foreign-call-accepted:%s", what);
        VIOL("C14", sig, "%s on module %s of context %d, called from thread c%d (%s), returned %ld instead of failing", what, m->name.c_str(), t.k, c.k, c.has_ctx ? "which owns another context" : "which has no context", rc);
    }
    if (kind < 31 && rc != -EPERM) {
        char sig[160];
        snprintf(sig, sizeof sig, "C14:foreign-call-wrong-error:%s", what);
        VIOL("C14", sig, "%s on a module of another thread's context returned %ld, not a permission error (-EPERM)", what, rc);
    }
    oracle_eval("C14.foreign-call-no-effect");
    std::string after = snapshot_ctx(t, in_owner_callback);
    if (in_owner_callback) io_before = R->k.ios.size();
    bool pool_threads = false;
    for (auto &th2 : R->threads) if (th2->name.rfind("lib", 0) == 0) pool_threads = true;
    if (pool_threads) io_before = R->k.ios.size();
    if (before != after || R->k.ios.size() != io_before) {
        char sig[160];
        snprintf(sig, sizeof sig, "C14:foreign-call-had-effect:%s", what);
        VIOL("C14", sig, "refused %s from thread c%d changed context %d: [%s] -> [%s]%s", what, c.k, t.k, before.c_str(), after.c_str(), R->k.ios.size() != io_before ? " (descriptor I/O happened)" : "");
    }
    G->foreign_ok++;
}

void *ctx_thread(void *arg) {
    CtxW &c = *(CtxW *)arg;
    c.tid = sim::self_id();
    sim::set_own_stream(c.k);
    // ---- setup
    if (c.want_ctx) {
        std::string nm = "ctx" + std::to_string(c.k);
        int rc = m_ctx_register(nm.c_str(), (m_ctx_flags)0, nullptr);
        obs(c, "ctx_register rc=%d", rc);
        oracle_eval("C14.own-call-succeeds");
        if (rc != 0) VIOL("C14", "C14:own-context-refused", "thread c%d could not register its own context (%d) although it has none", c.k, rc);
        c.has_ctx = true;
        // the module that ends the loop for sure
        c.mods.emplace_back();
        ModRec &d = c.mods.back();
        d.cw = &c; d.idx = 0; d.name = "deadline";
        rc = m_mod_register("deadline", &d.h, &HOOK, (m_mod_flags)0, nullptr);
        if (rc != 0) VIOL("C14", "C14:own-register-refused", "context %d: registering its first module returned %d", c.k, rc);
    }
    for (const Op *op : c.setup) exec_own(c, *op);
    barrier();
    // ---- foreign calls while every context is quiescent
    for (const Op *op : c.foreign) exec_foreign(c, *op);
    barrier();
    // ---- a call made while the owner is inside a callback of the target module (its loop is about to run / running)
    if (!G->alone && G->win.op && G->win.foreign_k == c.k && G->win.state == 0 && !G->win.owner_loop_done) {
        G->win.state = 1;
        G->win.foreign_tid = sim::self_id();
        while (G->win.state == 1) sim::park();
        if (G->win.state == 2) {
            sim::hb_acquire(G->win_vc);
            // every module of the owner is a target: the one whose callback runs included
            for (int i = 0; i < 3; i++) {
                Op o = *G->win.op;
                o.a[1] = o.arg(1) + i;
                exec_foreign(c, o, true);
            }
            sim::hb_release(G->win_vc);
            G->win.state = 3;
            sim::unpark(G->win.owner_tid);
        }
    }
    // ---- loop
    if (c.has_ctx) {
        ModRec &d = c.mods[0];
        m_src_tmr_t t; t.clock_id = CLOCK_MONOTONIC; t.ns = 40000000ULL;
        m_mod_src_register_tmr(d.h, &t, M_SRC_ONESHOT, nullptr);
        int rc = m_ctx_loop();
        obs(c, "loop rc=%d", rc);

        for (const Op *op : c.post) exec_own(c, *op);
    }
    if (G->win.owner_k == c.k) {
        G->win.owner_loop_done = true;
        if (G->win.state == 1) { G->win.state = 4; sim::unpark(G->win.foreign_tid); }   // no handler of ours ran in time (or we have no context): nothing to test
    }
    barrier();
    // ---- teardown
    if (c.has_ctx) {
        for (auto &m : c.mods) obs(c, "final %s state=%d events=%d", m.name.c_str(), m.h ? (int)m_mod_state(m.h) : -1, m.events);
        int rc = m_ctx_deregister();
        obs(c, "ctx_deregister rc=%d", rc);
        for (auto &m : c.mods) if (m.h) { m_mem_unref(m.h); m.h = nullptr; }
        c.has_ctx = false;
    }
    return nullptr;
}

struct Result14 {
    std::vector<std::vector<std::string>> obs;
    uint64_t fp = 0;
    bool horizon = false;
    int foreign_ok = 0;
    int events = 0;
    size_t nthreads = 0;
    int window_foreigner = -1;
};

sim::Config cfg14(const Program &p, bool trace) {
    sim::Config c;
    c.seed = p.getu("seed", 1);
    c.sched = (int)p.get("sched", sim::S_RANDOM);
    c.switch_p = p.getd("switch_p", 0.3);
    c.pct_depth = (int)p.get("pct_depth", 3);
    c.subset_p = p.getd("subset_p", 0);
    c.max_waits = 4000;
    c.max_steps = 2000000;
    c.cost_ns = 0;
    c.trace = trace;
    c.preempt_mem = sim::g_race_build;
    c.preempt_mem_p = p.getd("preempt_mem_p", 0.02);
    return c;
}

Result14 run_once(const Program &p, bool trace, int only) {
    sim::g_race_property = "C14";
    sim::run_begin(cfg14(p, trace));
    install_violation_filter("C14");
    m_set_memhook(sk_malloc, sk_calloc, sk_free);
    World14 w;
    G = &w;
    w.race_mode = sim::g_race_build;
    w.alone = only >= 0;
    w.only = only;
    int n = (int)std::min(3L, std::max(1L, p.get("contexts", 2)));
    for (int k = 0; k < n; k++) {
        w.ctxs.emplace_back();
        CtxW &c = w.ctxs.back();
        c.k = k;
        c.want_ctx = p.get("noctx", -1) != k;
        c.budget = (int)p.get("budget", 6);
    }
    for (auto &op : p.ops) {
        if (op.where.size() < 2 || op.where[0] != 'c') continue;
        int k = atoi(op.where.c_str() + 1) % n;
        CtxW &c = w.ctxs[(size_t)k];
        if (op.name == "foreign_in_cb") {
            if (!w.win.op && n >= 2) { w.win.op = &op; w.win.foreign_k = k; w.win.owner_k = (int)foreign_target(c, op); }
        } else if (op.name == "foreign") c.foreign.push_back(&op);
        else if (op.name.rfind("post_", 0) == 0) c.post.push_back(&op);
        else c.setup.push_back(&op);
    }
    w.nthreads = only >= 0 ? 1 : n;
    static World14 *s_w;
    s_w = &w;
    sim::run_main([]() {
        std::vector<int> tids;
        for (auto &c : s_w->ctxs) {
            if (s_w->only >= 0 && c.k != s_w->only) continue;
            tids.push_back(sim::thread_create(ctx_thread, &c, false, "ctx"));
        }
        for (int t : tids) sim::thread_join(t);
    });
    Result14 r;
    for (auto &t : R->threads) if (t->st != sim::Thread::DONE) VIOL("C14", "C14:thread-never-finishes", "thread %s is blocked for ever at the end of the run", t->name.c_str());
    oracle_eval("C14.nothing-left-behind");
    if (R->a.outstanding() != 0) VIOL("C14", "C14:leak", "%zu allocation(s) outstanding after every context was deregistered", R->a.outstanding());
    if (R->k.open_count(sim::OWN_LIB) != 0) VIOL("C14", "C14:descriptor-left-open", "%zu library descriptor(s) open after every context was deregistered", R->k.open_count(sim::OWN_LIB));
    for (auto &c : w.ctxs) { r.obs.push_back(c.obs); r.events += c.handled; }
    r.fp = R->fp;
    r.horizon = R->horizon_hit || R->k.poll_failure_injected;
    r.foreign_ok = w.foreign_ok;
    r.nthreads = R->threads.size();
    if (w.win.op && w.win.state != 0) r.window_foreigner = w.win.foreign_k;
    if (only < 0) {
        if (w.foreign_ok) R->ctr.probe("foreign_calls_refused", (uint64_t)w.foreign_ok);
        if (n >= 2) R->ctr.probe("runs_with_concurrent_loops");
        if (sim::g_race_build) {
            uint64_t acc, pre;
            sim::race_stats(acc, pre);
            R->ctr.probe("instrumented_accesses", acc);
            if (pre) R->ctr.fault("preempt_at_memory_access", pre);
        }
        g_stats.absorb_run();
    }
    G = nullptr;
    sim::run_end();
    return r;
}

} // namespace

RunResult run_ctxs(const Program &p, bool trace) {
    Result14 together = run_once(p, trace, -1);
    RunResult rr;
    rr.fp = together.fp;
    rr.nontrivial = together.events >= 2 && together.obs.size() >= 2;
    rr.state_hash = sim::mix64((uint64_t)std::min(together.events, 12), (uint64_t)std::min(together.foreign_ok, 6) * 4 + together.obs.size());
    if (sim::g_race_build || together.horizon) return rr;
    // independence: each context alone must observe exactly what it observed next to the others
    for (size_t k = 0; k < together.obs.size(); k++) {
        if (p.get("noctx", -1) == (long)k) continue;
        if ((int)k == together.window_foreigner) continue;   // it delayed its own loop to make a call inside the other context's callback: not the same program as alone
        Result14 alone = run_once(p, false, (int)k);
        if (alone.horizon) continue;
        oracle_eval("C14.independence");
        if (alone.obs[k] != together.obs[k]) {
            size_t i = 0;
            while (i < alone.obs[k].size() && i < together.obs[k].size() && alone.obs[k][i] == together.obs[k][i]) i++;
            std::string a = i < alone.obs[k].size() ? alone.obs[k][i] : "(end)", b = i < together.obs[k].size() ? together.obs[k][i] : "(end)";
            sim::run_begin(cfg14(p, false));
            install_violation_filter("C14");
            VIOL("C14", "C14:context-observes-other-contexts", "context %zu observes [%s] at step %zu next to the other contexts but [%s] when run alone", k, b.c_str(), i, a.c_str());
        }
    }
    return rr;
}

Program gen_ctxs(const std::string &campaign, uint64_t seed, bool thorough) {
    (void)campaign;
    sim::Rng r = sim::fork_rng(seed, "gen-ctxs");
    Program p;
    p.set("property", "C14");
    p.set("engine", "simthr");
    p.set("campaign", "C14");
    p.set("seed", (long)seed);
    static const int scheds[] = {sim::S_RANDOM, sim::S_RANDOM, sim::S_PCT, sim::S_RR, sim::S_RTB};
    p.set("sched", scheds[r.below(5)]);
    p.setd("switch_p", r.chance(0.5) ? 0.3 : (r.chance(0.5) ? 0.05 : 0.7));
    p.set("pct_depth", (long)r.range(1, 4));
    p.setd("subset_p", r.chance(0.3) ? 0.3 : 0.0);
    int n = (int)r.range(2, 3);
    p.set("contexts", n);
    p.set("noctx", r.chance(0.2) ? (long)r.below(n) : -1L);
    p.set("budget", (long)r.range(2, thorough ? 14 : 8));
    p.setd("preempt_mem_p", r.chance(0.5) ? 0.02 : 0.1);
#ifdef SIM_BUILD_RACE
    p.set("build", "race");
#else
    p.set("build", "asan");
#endif
    for (int k = 0; k < n; k++) {
        std::string who = "c" + std::to_string(k);
        int nm = (int)r.range(1, 3);
        for (int i = 0; i < nm; i++) {
            p.add(who, "reg", {(long)i, r.chance(0.25) ? 1L : 0L});
            if (r.chance(0.7)) p.add(who, "start", {(long)(i + 1)});
        }
        int nops = (int)r.range(2, thorough ? 14 : 8);
        for (int i = 0; i < nops; i++) {
            switch (r.below(8)) {
            case 0: case 1: p.add(who, "sub", {(long)r.below(4), (long)r.below(4)}); break;
            case 2: case 3: p.add(who, "tmr", {(long)r.below(4), (long)r.range(1, 12), r.chance(0.3) ? 1L : 0L}); break;
            case 4: p.add(who, "tell", {(long)r.below(4), (long)r.below(4), (long)r.below(1000)}); break;
            case 5: p.add(who, "pub", {(long)r.below(4), (long)r.below(4), (long)r.below(1000)}); break;
            case 6:
                if (r.chance(0.5)) p.add(who, "task", {(long)r.below(4), (long)r.below(5), (long)r.range(0, 4000000)});
                else p.add(who, "path", {(long)r.below(4), (long)r.below(2), (long)r.range(1, 6)});
                break;
            case 7:
#ifdef SIM_BUILD_RACE
                p.add(who, "start", {(long)r.below(4)});   // (no pause next to task sources: avoid filter of the known task-thread finding)
#else
                { static const char *L[] = {"start", "pause", "stop", "dereg", "start", "stop"}; p.add(who, L[r.below(6)], {(long)r.below(4)}); }
#endif
                break;
            }
        }
#ifndef SIM_BUILD_RACE
        if (r.chance(0.3)) p.add(who, r.chance(0.6) ? "post_dereg" : "post_stop", {(long)r.below(4)});   // after its own loop, next to the others' loops
#endif
        if (k == 0 && r.chance(0.5)) p.add(who, "foreign_in_cb", {(long)r.below(3), (long)r.below(4), (long)r.below(31), (long)r.below(4)});
        int nf = (int)r.range(0, 4);
        for (int i = 0; i < nf; i++) p.add(who, "foreign", {(long)r.below(3), (long)r.below(4), (long)r.below(34), (long)r.below(4)});
    }
    return p;
}
