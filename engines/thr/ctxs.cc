// C14: several contexts on several threads (to be filled in).
#include "thr.h"
Program gen_ctxs(const std::string &campaign, uint64_t seed, bool thorough) { (void)campaign; (void)seed; (void)thorough; return Program(); }
RunResult run_ctxs(const Program &p, bool trace) { (void)p; (void)trace; return RunResult(); }
