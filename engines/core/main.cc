// simcore: the whole library on the simulated kernel / clock / scheduler / allocator.
#include "core.h"

Stats g_stats;
using sim::R;

struct Outcome {
    std::map<int, std::vector<std::string>> per_slot;   // delivered sequence per module slot
    std::vector<int> loop_rcs;
    std::vector<bool> loop_failed;
    bool horizon = false;
};

static sim::Config cfg_from(const Program &p, bool trace) {
    sim::Config c;
    c.seed = p.getu("seed", 1);
    c.sched = (int)p.get("sched", sim::S_RTB);
    c.cost_ns = p.getu("cost_ns", 0);
    c.timer_late_ns = p.getu("late_ns", 0);
    c.subset_p = p.getd("subset_p", 0);
    c.eintr_p = p.getd("eintr_p", 0);
    c.spurious_p = p.getd("spurious_p", 0);
    c.max_waits = p.getu("max_waits", 60);
    c.max_steps = p.getu("max_steps", 300000);
    c.trace = trace;
    return c;
}

static RunResult execute_once(const Program &p, bool trace, bool errno_ops, bool dispatch_variant, Outcome *out, sim::Config *override_cfg = nullptr) {
    sim::Config cfg = override_cfg ? *override_cfg : cfg_from(p, trace);
    sim::run_begin(cfg);
    install_violation_filter(p.gets("property"));
    m_set_memhook(sk_malloc, sk_calloc, sk_free);
    World w;
    world_init(w, p);
    w.errno_ops = errno_ops;
    w.dispatch_variant = dispatch_variant;
    std::string prop = w.property;
    R->a.on_bad_free = [prop](void *ptr, bool twice, int tag) {
        (void)ptr;
        if (twice && tag == 1 && (prop == "C02"))
            sim::violation("C02", "C02:payload-freed-twice", "an auto-free payload was released a second time");
    };
    sim::run_main([]() { run_driver(); });
    RunResult rr;
    rr.fp = R->fp;
    rr.nontrivial = w.n_deliveries >= 1 && w.apis.size() >= 4;
    rr.state_hash = w.state_hash;
    if (out) {
        for (auto &d : w.deliveries) {
            if (d.in_unstash) continue;
            for (auto &e : d.evts) {
                char b[96];
                if (e.type == M_SRC_TYPE_PS) snprintf(b, sizeof b, "ps:%d:%ld:%s:%lu", e.system, e.send_id, e.system ? e.topic_s.c_str() : "", (unsigned long)e.ud);
                else snprintf(b, sizeof b, "%d:%lu", e.type, (unsigned long)e.ud);
                out->per_slot[d.slot].push_back(b);
            }
        }
        for (auto &l : w.loops) { out->loop_rcs.push_back(l.ended ? l.rc : -9999); out->loop_failed.push_back(l.poll_failure); }
        out->horizon = R->horizon_hit;
    }
    if (w.n_deliveries) R->ctr.probe("runs_with_delivery");
    if (!w.loops.empty()) R->ctr.probe(w.loops[0].blocking ? "loop_runs_blocking" : "loop_runs_dispatch", w.loops.size());
    if (R->threads.size() > 1) R->ctr.probe("runs_with_pool_threads");
    g_stats.absorb_run();
    W = nullptr;
    sim::run_end();
    return rr;
}

static std::string seq_str(const std::vector<std::string> &v) {
    std::string s;
    for (auto &x : v) { s += x; s += ' '; }
    return s;
}

struct CoreEngine : Engine {
    Program generate(const std::string &campaign, uint64_t seed, bool thorough) override { return gen_core(campaign, seed, thorough); }
    RunResult execute(const Program &p, bool trace) override {
        std::string prop = p.gets("property");
        if (prop != "C03") return execute_once(p, trace, true, false, nullptr);
        if (getenv("SIM_VARIANT")) {   // debugging aid: run one variant only, with the comparison's configuration
            sim::Config c = cfg_from(p, trace);
            c.cost_ns = 0; c.eintr_p = 0; c.timer_late_ns = 0;
            return execute_once(p, trace, true, !strcmp(getenv("SIM_VARIANT"), "dispatch"), nullptr, &c);
        }
        // C03: base run plus two differential variants
        Outcome base;
        RunResult rr = execute_once(p, trace, true, false, &base);
        bool has_errno = false, has_loop = false, has_task = false;
        for (auto &op : p.ops) { if (op.name == "errno") has_errno = true; if (op.name == "loop") has_loop = true; if (op.name == "src_task") has_task = true; }
        // a task source brings a second thread: its interleaving with the loop thread differs between the two drivers (different
        // yield points), so which poll sees the completion is not comparable
        if (has_task) has_loop = false;
        if (has_errno) {
            // errno values left behind by user callbacks are not an input of the library
            Outcome v;
            execute_once(p, false, false, false, &v);
            oracle_eval("C03.errno-independence");
            sim::Config c = cfg_from(p, false);
            sim::run_begin(c);
            install_violation_filter("C03");
            if (base.loop_rcs != v.loop_rcs) {
                std::string a, b;
                for (int x : base.loop_rcs) a += std::to_string(x) + " ";
                for (int x : v.loop_rcs) b += std::to_string(x) + " ";
                VIOL("C03", "C03:errno-changes-loop-result", "loop return codes differ when callbacks leave errno set: [%s] vs [%s] without", a.c_str(), b.c_str());
            }
            for (auto &kv : v.per_slot) {
                auto &with = base.per_slot[kv.first];
                if (with != kv.second)
                    VIOL("C03", with.size() < kv.second.size() ? "C03:errno-drops-events" : "C03:errno-changes-deliveries",
                         "module slot %d receives [%s] when callbacks leave errno set, [%s] otherwise", kv.first, seq_str(with).c_str(), seq_str(kv.second).c_str());
            }
            for (auto &kv : base.per_slot)
                if (!v.per_slot.count(kv.first) && !kv.second.empty())
                    VIOL("C03", "C03:errno-changes-deliveries", "module slot %d receives events only when callbacks leave errno set", kv.first);
            sim::run_end();
        }
        if (has_loop && p.gets("mode") == "blocking") {
            // dispatch calls must produce the same deliveries as the blocking loop (no time costs, no injected EINTR: both walk the same ready sets)
            sim::Config c = cfg_from(p, false);
            c.cost_ns = 0; c.eintr_p = 0; c.timer_late_ns = 0;
            Outcome b2, d2;
            execute_once(p, false, true, false, &b2, &c);
            bool clean = !b2.horizon;
            for (bool f : b2.loop_failed) if (f) clean = false;
            if (clean) {
                execute_once(p, false, true, true, &d2, &c);
                oracle_eval("C03.dispatch-equals-loop");
                sim::run_begin(c);
                install_violation_filter("C03");
                if (!d2.horizon) {
                    if (b2.loop_rcs != d2.loop_rcs) {
                        std::string a, b;
                        for (int x : b2.loop_rcs) a += std::to_string(x) + " ";
                        for (int x : d2.loop_rcs) b += std::to_string(x) + " ";
                        VIOL("C03", "C03:dispatch-differs:return-code", "blocking loop returned [%s], the same program driven by dispatch calls [%s]", a.c_str(), b.c_str());
                    }
                    std::set<int> keys;
                    for (auto &kv : b2.per_slot) keys.insert(kv.first);
                    for (auto &kv : d2.per_slot) keys.insert(kv.first);
                    for (int k : keys)
                        if (b2.per_slot[k] != d2.per_slot[k])
                            VIOL("C03", "C03:dispatch-differs:deliveries", "module slot %d: blocking loop delivered [%s], dispatch calls [%s]", k, seq_str(b2.per_slot[k]).c_str(), seq_str(d2.per_slot[k]).c_str());
                }
                sim::run_end();
            }
        }
        return rr;
    }
};

extern "C" const char *__asan_default_options() { return "exitcode=77:detect_leaks=0:abort_on_error=0:allocator_may_return_null=1:handle_segv=1:detect_stack_use_after_return=0"; }
extern "C" const char *__ubsan_default_options() { return "print_stacktrace=1:halt_on_error=1:exitcode=77"; }

int main(int argc, char **argv) {
    CoreEngine e;
    return worker_main(argc, argv, e);
}
