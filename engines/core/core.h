// simcore: whole library on the simulated kernel. World = harness-side mirror of what the program did,
// built only from public API results, callbacks and kernel/allocator facts (black box, DESIGN.md 4.2).
#pragma once
#include "../common/worker.h"
#include <regex.h>
#include <cstring>
#include <cerrno>
#include <string>
#include <vector>
#include <map>
#include <set>
#include <deque>
#include <algorithm>
#include <tuple>

extern "C" {
#include <module/mod.h>
#include <module/ctx.h>
#include <module/mem/mem.h>
#include <module/thpool/thpool.h>
void *sk_malloc(size_t n);
void *sk_calloc(size_t a, size_t b);
void sk_free(void *p);
}

#define VIOL(prop, sig, ...) sim::violation(prop, sig, __VA_ARGS__)

enum CbKind { CB_START = 0, CB_STOP = 1, CB_EVAL = 2, CB_EVT = 3 };
static const char *const CB_NAMES[] = {"start", "stop", "eval", "evt"};

// state codes as the library reports them
enum { ST_NONE = 0, ST_IDLE = M_MOD_IDLE, ST_RUNNING = M_MOD_RUNNING, ST_PAUSED = M_MOD_PAUSED, ST_STOPPED = M_MOD_STOPPED, ST_ZOMBIE = M_MOD_ZOMBIE };
const char *st_name(int st);

struct Frame {
    bool is_cb = false;
    std::string name;      // api name or callback kind
    int slot = -1;         // target module slot (api) / module whose callback runs
    int cb = -1;
    int actor = -1;        // api frames: the module on whose behalf the call is made when it is not the target (sender of a pill)
    uint64_t gseq = 0;
    int nested = 0;        // number of callback frames opened inside (for api frames)
    int script_ops = 0;    // number of scripted operations executed inside (0: callbacks, if any, did nothing)
    bool touched_target = false;   // a nested frame operated on the target
    bool had_ctx_at_entry = false; // context model when the call was entered
    int ctx_gen_at_entry = 0;
};

struct SubM {
    std::string topic;
    unsigned flags = 0;
    uint64_t ud = 0;
    bool re_ok = false;
    regex_t re;
    const char *topic_ptr = nullptr;   // pointer handed to the library
};

struct SrcM {
    int type = 0;
    long k1 = 0, k2 = 0;       // identifying key (fd idx / ns / signo / path idx / pid / tid / thresh pair)
    unsigned flags = 0;
    uint64_t ud = 0;
    bool oneshot = false;
    int fd = -1;               // fd sources: the descriptor number given to the library
    int ufd = -1;              // index of the user descriptor
    uint64_t reg_gseq = 0;
    uint64_t removed_gseq = 0; // kept in 'recent' after removal until the next quiescent point
    uint64_t delivered_gseq = 0; // last time an event of this source was handed to the module
    int missed_polls = 0;        // consecutive polls that reported it without a delivery
};

struct EvtObs {
    int type = -1;
    int prio = -1;         // priority as configured by the module when the event was handed over: 0 low, 1 normal, 2 high, -1 unknown
    bool system = false;
    int sender_slot = -1;
    const void *sender = nullptr;
    const char *topic = nullptr;
    std::string topic_s;
    const void *data = nullptr;
    long send_id = -1;
    int fd = -1;
    uint64_t ns = 0;
    unsigned signo = 0;
    std::string path;
    unsigned path_events = 0;
    int pid = 0;
    unsigned tid = 0;
    int retval = 0;
    double thr_freq = 0;
    uint64_t thr_inactive = 0;
    const void *userdata = nullptr;
    uint64_t ud = 0;          // decoded userdata id (0 = none/unknown)
    uint64_t ts = 0;
    const m_evt_t *raw = nullptr;
};

struct Delivery {
    uint64_t gseq = 0;
    int slot = -1;
    int handler = 0;          // index of the handler function that received it
    int state_at_entry = 0;
    bool in_unstash = false;
    bool ctx_looping = false; // as reported by m_ctx_stats at handler entry (false also when unknown)
    bool looping_known = false;
    uint64_t loop_run = 0;
    std::vector<EvtObs> evts;
};

struct SendRec {
    long id = 0;
    int kind = 0;             // 0 tell, 1 publish, 2 broadcast, 3 pill
    int from = -1, to = -1;
    std::string topic;
    const char *topic_ptr = nullptr;
    bool autofree = false;
    const void *payload = nullptr;
    uint64_t gseq = 0;
    int rc = 0;
    bool in_flush = false;    // issued from a handler running in the final flush (context no longer looping)
    bool ctx_looping = false;
    uint64_t loop_run = 0;
    std::vector<int> eligible;           // slots eligible when sent
    std::vector<int> overflow;           // eligible slots whose mailbox was full (no obligation)
    std::map<int, int> delivered;        // slot -> times delivered (outside unstash)
    std::set<int> dead;                  // slot: recipient left RUNNING/PAUSED (or PAUSED at loop end) before delivery
    std::set<int> low_matched;           // slot: a matching subscription was a low-priority one (the message may be parked until the next normal event)
    std::set<int> oneshot_matched;       // slot: the matching subscription was a one-shot one (may legitimately be discarded)
    std::set<int> unknown;               // slot: recipient was not RUNNING at some point of the final flush: the message may or may not have been discarded
};

struct StashM { long send_id; uint64_t ud; int type; const void *data; const m_evt_t *raw; };

struct Slot {
    int idx = 0;
    int name_idx = 0;
    std::string name;
    unsigned flags = 0;
    m_mod_t *h = nullptr;      // reference obtained from m_mod_register (NULLed by m_mod_deregister)
    m_mod_t *keep = nullptr;   // extra reference the harness keeps to be able to observe the module for the whole run
    int user_refs = 0;         // additional references taken by 'ref' ops
    bool has_eval = false, has_start = false, has_stop = false;
    bool eval_flag = true;
    int st = ST_NONE;          // last sampled state
    uint64_t st_gseq = 0;
    uint64_t last_non_running_gseq = 0;
    uint64_t idle_since_quiescent = 0;
    int n_cb[4] = {0, 0, 0, 0};
    bool last_eval_ret = true;
    uint64_t last_eval_gseq = 0;
    int enter_running_from_rest = 0;  // IDLE/STOPPED -> RUNNING edges observed
    int leave_active = 0;             // RUNNING/PAUSED -> STOPPED edges observed
    int stops_paired = 0;
    uint64_t pending_pill_gseq = 0;   // a pill accepted for this module and not yet effective
    int pills_pending = 0;
    bool pill_effective_seen = false;
    uint64_t userdata_id = 0;
    int ctx_gen = 0;                  // which context registration this module belongs to
    int prev_st = ST_NONE;            // state before the last observed edge
    uint64_t st_boundary = 0;         // boundary at which the last edge was observed
    uint64_t idle_since_gseq = 0;
    uint64_t eval_changed_gseq = 0;
    bool armed_dereg = false;   // harness: the next event handler invocation of this module ends by deregistering it (op 'arm_dereg')
    bool start_refused_pending = false;
    bool start_refused_due = false;   // the start callback refused while the module was RUNNING/PAUSED: the next look at it must find it stopped
    std::vector<uint64_t> oneshot_fired;
    uint64_t c08_last_send_gseq = 0;
    long c08_last_send_id = -1;
    uint64_t c08_pill_gseq = 0, c08_pill_effect_gseq = 0, c08_last_reset_gseq = 0;
    uint64_t pending_pill_first_gseq = 0;
    bool pill_overflowed = false;
    uint64_t batch_changed_gseq = 0, last_delivery_gseq = 0;
    int tb_st_at_set = 0; int tb_enter_running_at_set = 0;   // C18: a bucket set on a module at rest gets no refill until the module runs
    uint64_t tb_set_gseq = 0;            // event number at which the current token bucket was set
    uint64_t tb_charged_max = 0;         // upper bound on the tokens used since then (every rate-limited call that may have been charged)
    uint64_t batch_timer_armed_at = 0;   // simulated time at which the batch time-out timer was last (re)armed; 0 = unknown
    bool batch_timer_exact = false;      // ... and that time is exact (seam cost 0)
    uint64_t tb_refused_gseq = 0;
    int tb_success_since_refusal = 0;
    int tb_polls_after_due = 0;
    // C18: token bucket log
    uint64_t tb_set_time = 0;
    std::vector<uint64_t> tb_success_times;
    uint64_t tb_refused_at = 0, tb_refused_polls = 0;
    bool tb_refusal_armed = false;
    // C19: occurrences of this module (gseq of observed edges)
    struct Occ { uint64_t gseq; uint64_t end; size_t depth; };   // end: when the call that caused it was through with it (the notification is emitted after the start/stop callback returns)
    std::vector<Occ> occ_started, occ_stopped;
    uint64_t reg_gseq = 0;
    std::map<std::string, int> sys_received;     // key "topic|senderslot" -> count
    std::vector<uint64_t> tick_times;
    int c19_stopped_rx_at_loop_start = 0;
    long pending = 0;                 // messages accepted for this module and still in its mailbox (mirror)
    bool pending_exact = true;        // false once something we cannot count may be in the mailbox (system notifications, flush-time uncertainty)
    bool pill_wildcard = false;       // a pill was sent to it by a final-flush handler: whether it is still pending is unknown
    std::set<std::tuple<int, long, long>> c09_model;
    // mirrors
    std::map<std::string, SubM> subs;
    struct SubH { std::string first; uint64_t second; unsigned flags; uint64_t gseq; };
    std::vector<SubH> sub_history;
    std::set<uint64_t> oneshot_sub_uds;   // user data ids of one-shot subscriptions   // every (topic, user data) this module subscribed with since it last stopped
    std::vector<SrcM> srcs;
    std::vector<SrcM> recent_srcs;    // removed since the last quiescent point
    std::vector<int> hstack;          // become stack (handler indices)
    std::deque<StashM> stash;
    size_t batch_size = 0;
    uint64_t batch_timeout = 0;
    uint32_t tb_rate = 0;
    uint64_t tb_burst = 0;
    bool registered() const { return st != ST_NONE && st != ST_ZOMBIE; }
    bool dereg_asked = false;   // model: something asked for this module's deregistration (m_mod_deregister on it, a replacing registration, m_ctx_deregister);
                                // a module that turns ZOMBIE without that still counts as a member of its context
    m_mod_t *raw = nullptr;    // the module's address (valid to use only while the harness holds some reference)
    m_mod_t *handle() const { return h ? h : keep ? keep : (user_refs > 0 ? raw : nullptr); }
};

struct LoopRun {
    uint64_t id = 0;
    bool blocking = false;
    uint64_t start_gseq = 0, end_gseq = 0;
    bool quit_requested = false;
    int quit_code = 0;
    uint64_t quit_gseq = 0;
    bool ended = false;
    int rc = 0;
    bool poll_failure = false;
    uint64_t batches = 0;
    uint64_t evt_cbs = 0;   // event handlers entered during this run (none during the start-up pass)
};

struct RetainedEvt { const m_evt_t *raw; EvtObs first; int slot; bool released = false; };

struct AutoReg { int fd; uint64_t file_id; int slot; uint64_t ud; bool closed = false; bool removed = false; uint64_t close_gseq = 0; };

struct ApiRec { std::string name; int slot; int rc; int st_before; int st_after; uint64_t gseq; bool in_cb; int actor = -1; };

struct World {
    Program prog;
    std::string property;
    std::string campaign;
    bool errno_ops = true;     // honour set_errno ops (differential variant switches them off)
    bool dispatch_variant = false;  // interpret 'loop' ops through m_ctx_dispatch
    // context model
    bool has_ctx = false;
    unsigned ctx_flags = 0;
    bool ctx_finalized = false;
    uint64_t ctx_finalized_gseq = 0;
    bool ctx_looping = false;
    uint64_t ctx_tick_ns = 0;
    int ctx_registrations = 0;
    std::vector<LoopRun> loops;
    // modules
    std::deque<Slot> slots;   // deque: references stay valid while callbacks register further modules
    std::map<const void *, int> mod2slot;
    // frames
    std::vector<Frame> frames;
    // io
    std::vector<std::pair<int, int>> ufds;   // user pipes: (read fd, write fd); eventfd: (fd, -1)
    std::vector<uint64_t> ufd_ids;           // kernel file id of ufds[k].first when it was opened (a number alone may have been reused)
    std::vector<bool> ufd_closed_by_lib_ok;  // registered with AUTOCLOSE at least once
    // messaging
    std::deque<SendRec> sends;
    std::map<const void *, long> payload2send;
    std::deque<Delivery> deliveries;
    std::vector<RetainedEvt> retained;
    std::vector<ApiRec> apis;
    // userdata ids
    uint64_t next_ud = 1;
    std::map<const void *, uint64_t> udptr2id;
    // scripts: key "m<slot>.<cb>.<n>"
    std::map<std::string, std::vector<const Op *>> scripts;
    // current handler invocation (for evt ops)
    std::vector<Delivery *> cur_delivery;
    // bookkeeping for quiescent-point oracles
    uint64_t last_quiescent_gseq = 0;
    uint64_t last_real_poll_gseq = 0;
    size_t batches_seen = 0;
    uint64_t quiescent_points = 0;
    uint64_t reg_dereg_since_quiescent = 0;
    size_t batches_at_last_quiescent = 0;
    bool loop_start_pending_eval = false;
    int next_start_ret = 1;    // return value of the running on_start callback (set by 'ret' op)
    uint64_t state_hash = 0;
    uint64_t n_deliveries = 0, n_multi_batches = 0;
    bool nontrivial = false;
    int teardown_style = 0;
    bool keep_refs = true;
    uint64_t boundary_id = 0;
    bool quiescent_real = false;
    struct C16Expect { int slot; size_t k; bool seen; std::vector<StashM> want; };
    std::vector<C16Expect> c16_expect;
    struct C19Obl { int recipient; std::string topic; int sender; uint64_t gseq; bool done; uint64_t frame_gseq = 0; };
    std::vector<C19Obl> c19_obls;
    uint64_t ctx_tick_set_gseq = 0;
    bool c15_nested_cb_returned = false, c15_misc_null = false, c15_reserved_topic = false, c15_looping_at_entry = false;
    int c15_name_holder = -1;
    bool c18_tb_was_set_in_call = false;
    uint64_t real_polls = 0;
    uint64_t last_real_poll_time = 0;
    bool c19_tick_ever = false;
    uint64_t c19_min_tick_ns = 0;
    uint64_t c19_first_tick_gseq = 0;
    int next_actor = -1;   // the current quiescent point is a real poll (not the end of the start pass)
    bool c07_looping_at_entry = false;
    std::map<int, int> c07_active_before;
    std::map<int, int> c07_edges_before;
    std::vector<AutoReg> autoclose_regs;
};
extern World *W;

// ---- interp.cc
void world_init(World &w, const Program &p);
void run_driver();
void exec_op(const Op &op, bool in_cb, int cb_slot);
void sample_states(const char *where);
int state_of(int slot);
int slot_of(const m_mod_t *m);
Frame *cur_api_frame();
bool frame_on_stack(const char *name, int slot);
bool frame_on_stack_any(const char *name);
bool leaving(int slot);
bool ctx_member(const Slot &s);   // registered in the current context as far as the program's own calls go
int evt_prio(Slot &s, const EvtObs &e);
bool cb_on_stack(int cb, int slot);
bool ctx_is_looping_probe(bool *known);
bool flush_phase_now();
uint64_t ud_new(bool autofree, const void **ptr_out);
uint64_t ud_of(const void *p);
void teardown();

// ---- oracles (each only active when World::property says so)
bool on(const char *prop);
void orc_state_edge(int slot, int from, int to, const char *where);
void orc_api_exit(const ApiRec &r, const Frame &f, const std::string &snap0, const std::string &snap1);
void orc_cb_enter(int slot, int cb);
void orc_cb_exit(int slot, int cb);
void orc_delivery(Delivery &d);
void orc_send(SendRec &s);
void orc_quiescent();
void orc_loop_end(LoopRun &lr);
void orc_run_end();
std::string snapshot();
void orc_c08_edge(int slot, int from, int to);
void orc_c19_edge(int slot, int from, int to);
void orc_c19_loop_edge(bool started);
void orc_c13_loop_end(LoopRun &lr);
void orc_c15_delivery(Delivery &d);
void c09_check_counts(int slot, const char *after);
void c09_register(int slot, int type, long k1, long k2, bool params_valid, int rc, bool update_in_place_ok, const std::string &snap0);
void c09_deregister(int slot, int type, long k1, long k2, int rc, const std::string &snap0);

// ---- gen.cc
Program gen_core(const std::string &campaign, uint64_t seed, bool thorough);

// pools
extern const uint64_t TMR_NS_POOL[];
extern const int TMR_NS_POOL_N;
extern const char *const TOPIC_POOL[];
extern const int TOPIC_POOL_N;
extern const char *const PATH_POOL[];
extern const int PATH_POOL_N;
extern const char *const NAME_POOL[];
extern const int NAME_POOL_N;
