// Oracles for C02 C03 C07 C08 C09 C20 (see oracles.cc for the dispatch and C01/C04).
#include "core.h"

using sim::R;

static const char *kind_name(int k) { return k == 0 ? "tell" : k == 1 ? "publish" : k == 2 ? "broadcast" : "pill"; }
static bool has(const std::vector<int> &v, int x) { return std::find(v.begin(), v.end(), x) != v.end(); }

// =================================================================== C02
void orc_c02_send(SendRec &s) {
    if (s.rc != 0 || s.kind == 3) return;
    oracle_eval("C02.autofree-no-recipient");
    if (s.autofree && s.eligible.empty() && s.overflow.empty()) {
        if (!R->a.is_freed(s.payload))
            VIOL("C02", "C02:autofree-unreferenced-not-freed", "auto-free payload of a %s accepted with nobody eligible was not released when the call returned", kind_name(s.kind));
    }
}

void orc_c02_delivery(Delivery &d) {
    bool has_msg = false;
    for (auto &e : d.evts) if (e.type == M_SRC_TYPE_PS && !e.system) has_msg = true;
    if (has_msg && d.state_at_entry != ST_RUNNING) {
        char sig[96];
        snprintf(sig, sizeof sig, "C02:delivered-while-%s%s", st_name(d.state_at_entry), d.looping_known && !d.ctx_looping ? ":final-flush" : "");
        VIOL("C02", sig, "messages handed to module slot %d while it is %s (a recipient that is not RUNNING gets nothing; PAUSED at loop end means discarded)", d.slot, st_name(d.state_at_entry));
    }
    for (auto &e : d.evts) {
        if (e.type != M_SRC_TYPE_PS || e.system) continue;
        oracle_eval("C02.delivery-matches-send");
        if (e.send_id < 0) VIOL("C02", "C02:unknown-payload", "module slot %d received a message whose payload pointer was never sent", d.slot);
        SendRec &sd = W->sends[e.send_id];
        char sig[96];
        if (!has(sd.eligible, d.slot)) {
            snprintf(sig, sizeof sig, "C02:delivered-to-ineligible:%s", kind_name(sd.kind));
            VIOL("C02", sig, "%s #%ld reached module slot %d (%s when sent) which was not eligible", kind_name(sd.kind), sd.id, d.slot, st_name(W->slots[d.slot].st));
        }
        if (e.sender != (const void *)W->slots[sd.from].handle() && e.sender_slot != sd.from)
            VIOL("C02", "C02:wrong-sender", "message #%ld delivered with sender slot %d, sent by slot %d", sd.id, e.sender_slot, sd.from);
        if (e.topic != sd.topic_ptr) VIOL("C02", "C02:wrong-topic", "message #%ld delivered with a different topic pointer than the sender supplied", sd.id);
        if (!d.in_unstash) {
            if (sd.delivered.count(d.slot)) {
                snprintf(sig, sizeof sig, "C02:delivered-twice:%s", kind_name(sd.kind));
                VIOL("C02", sig, "%s #%ld handed to module slot %d a second time", kind_name(sd.kind), sd.id, d.slot);
            }
            if (sd.dead.count(d.slot)) {
                snprintf(sig, sizeof sig, "C02:delivered-after-discard:%s", kind_name(sd.kind));
                VIOL("C02", sig, "%s #%ld handed to module slot %d although the module was stopped/deregistered (or PAUSED at loop end) after it was sent", kind_name(sd.kind), sd.id, d.slot);
            }
        }
        if (sd.autofree && R->a.is_freed(sd.payload))
            VIOL("C02", "C02:payload-freed-before-delivery", "auto-free payload of message #%ld was already released when it was handed to module slot %d (%zu eligible recipients)", sd.id, d.slot, sd.eligible.size());
    }
}

void orc_c02_loop_end(LoopRun &lr) {
    oracle_eval("C02.delivered-by-loop-end");
    for (auto &sd : W->sends) {
        if (sd.rc != 0 || sd.kind == 3 || sd.in_flush) continue;
        if (sd.gseq > lr.end_gseq) continue;
        for (int e : sd.eligible) {
            if (sd.delivered.count(e) || sd.dead.count(e) || sd.unknown.count(e) || has(sd.overflow, e)) continue;
            if (sd.oneshot_matched.count(e)) continue;   // matched through a one-shot subscription only: it fires once, for whichever matching message is received first
            Slot &r = W->slots[e];
            // RUNNING when the loop run ends. It need not have been RUNNING throughout: a message for a PAUSED module waits in its mailbox
            // and is handed over after the resume (a stop in between, or a loop end while PAUSED, discards it: 'dead'/'unknown' above);
            // only a module that left RUNNING after the last poll is in the flush-time grey zone
            if (r.st != ST_RUNNING) continue;
            if (r.last_non_running_gseq >= sd.gseq && r.last_non_running_gseq >= W->last_real_poll_gseq) continue;
            if (r.batch_size || r.batch_timeout) continue;                             // being batched
            if (r.ctx_gen != W->ctx_registrations) continue;
            char sig[96];
            snprintf(sig, sizeof sig, "C02:not-delivered-by-loop-end:%s%s", kind_name(sd.kind), lr.quit_requested ? ":quit" : "");
            VIOL("C02", sig, "%s #%ld (sent at event %lu to recipient slot %d, RUNNING or PAUSED then, never stopped since and RUNNING now) had not been delivered when the loop run %lu ended (rc=%d)",
                 kind_name(sd.kind), sd.id, (unsigned long)sd.gseq, e, (unsigned long)lr.id, lr.rc);
        }
    }
}

void orc_c02_run_end() {
    oracle_eval("C02.payload-conservation");
    for (auto &sd : W->sends) {
        if (sd.rc != 0 || sd.kind == 3 || !sd.autofree || !sd.payload) continue;
        if (!R->a.is_freed(sd.payload)) {
            char sig[96];
            snprintf(sig, sizeof sig, "C02:autofree-payload-leaked:%s", sd.eligible.empty() ? "no-recipient" : "with-recipients");
            VIOL("C02", sig, "auto-free payload of %s #%ld (%zu eligible) was never released", kind_name(sd.kind), sd.id, sd.eligible.size());
        }
    }
}

// =================================================================== C03
static SrcM *match_src(Slot &s, const EvtObs &e, bool *recent) {
    *recent = false;
    for (auto &x : s.srcs) if (x.type == e.type && x.ud == e.ud) return &x;
    for (auto &x : s.recent_srcs) if (x.type == e.type && x.ud == e.ud) { *recent = true; return &x; }
    return nullptr;
}

void orc_c03_delivery(Delivery &d) {
    Slot &s = W->slots[d.slot];
    oracle_eval("C03.event-owner-userdata");
    if (d.state_at_entry != ST_RUNNING) VIOL("C03", "C03:event-while-not-running", "events handed to module slot %d while it is %s", d.slot, st_name(d.state_at_entry));
    static const char *TN[] = {"ps", "fd", "tmr", "sgn", "path", "pid", "task", "thresh"};
    for (auto &e : d.evts) {
        char sig[96];
        if (e.type == M_SRC_TYPE_PS) {
            if (e.system) continue;
            if (e.send_id < 0) continue;
            SendRec &sd = W->sends[e.send_id];
            if (sd.kind == 1) {
                // publish: the user data of a subscription of this module that matches the topic
                // (the subscription that matched when the message was sent may have been replaced or removed since: any
                //  subscription this module held on a matching topic since it last started qualifies)
                bool ok = false, any = false;
                for (auto &h : s.sub_history) {
                    regex_t re;
                    bool m = h.first == sd.topic;
                    if (!m && regcomp(&re, h.first.c_str(), REG_NOSUB) == 0) { m = regexec(&re, sd.topic.c_str(), 0, nullptr, 0) == 0; regfree(&re); }
                    if (!m) continue;
                    any = true;
                    if (h.second == e.ud) ok = true;
                }
                if (ok && !d.in_unstash && s.oneshot_sub_uds.count(e.ud)) {
                    oracle_eval("C03.oneshot-once");
                    if (std::count(s.oneshot_fired.begin(), s.oneshot_fired.end(), e.ud))
                        VIOL("C03", "C03:oneshot-fired-twice:ps", "one-shot subscription of module slot %d delivered a second message ('%s')", d.slot, sd.topic.c_str());
                }
                if (!any && !d.in_unstash) VIOL("C03", "C03:event-unknown-source:ps", "module slot %d received a publish on '%s' without a matching subscription", d.slot, sd.topic.c_str());
                if (any && !ok && !d.in_unstash) {
                    snprintf(sig, sizeof sig, "C03:event-wrong-userdata:ps%s", d.looping_known && !d.ctx_looping ? ":final-flush" : "");
                    VIOL("C03", sig, "publish on '%s' handed to module slot %d with user data %s instead of the subscription's", sd.topic.c_str(), d.slot, e.userdata ? "of something else" : "NULL");
                }
            } else if (e.userdata) {
                VIOL("C03", "C03:event-wrong-userdata:tell", "a direct message carries user data");
            }
            continue;
        }
        if (e.type < 0 || e.type >= M_SRC_TYPE_END) VIOL("C03", "C03:event-bad-type", "event of unknown type %d", e.type);
        bool recent;
        SrcM *x = match_src(s, e, &recent);
        if (!x) {
            // maybe the source exists but the user data is wrong
            bool same_key = false;
            for (auto &y : s.srcs) if (y.type == e.type) same_key = true;
            snprintf(sig, sizeof sig, "%s:%s", same_key ? "C03:event-wrong-userdata" : "C03:event-unknown-source", TN[e.type]);
            VIOL("C03", sig, "module slot %d received a %s event (user data id %ld) that matches no source it has registered", d.slot, TN[e.type], (long)e.ud);
        }
        // key check
        bool key_ok = true;
        switch (e.type) {
        case M_SRC_TYPE_FD: key_ok = (x->flags & M_SRC_DUP) ? true : e.fd == x->fd; break;
        case M_SRC_TYPE_TMR: key_ok = e.ns == TMR_NS_POOL[x->k1]; break;
        case M_SRC_TYPE_SGN: key_ok = (long)e.signo == x->k1; break;
        case M_SRC_TYPE_PATH: key_ok = e.path == PATH_POOL[x->k1]; break;
        case M_SRC_TYPE_PID: key_ok = e.pid == x->k1; break;
        case M_SRC_TYPE_TASK: key_ok = (long)e.tid == x->k1 && e.retval == (int)x->k2; break;
        default: break;
        }
        if (!key_ok) {
            snprintf(sig, sizeof sig, "C03:event-wrong-key:%s", TN[e.type]);
            VIOL("C03", sig, "%s event handed to module slot %d does not carry the identifying value of its source", TN[e.type], d.slot);
        }
        if (x->oneshot && recent) {
            oracle_eval("C03.oneshot-once");
            if (std::count(s.oneshot_fired.begin(), s.oneshot_fired.end(), x->ud)) {
                snprintf(sig, sizeof sig, "C03:oneshot-fired-twice:%s", TN[e.type]);
                VIOL("C03", sig, "one-shot %s source of module slot %d fired a second time", TN[e.type], d.slot);
            }
        }
    }
}

void orc_c03_quiescent() {
    // a fired one-shot source is no longer counted
    oracle_eval("C03.oneshot-deregistered");
    for (auto &s : W->slots) {
        if (s.st != ST_RUNNING && s.st != ST_PAUSED) continue;
        if (s.ctx_gen != W->ctx_registrations || !s.handle()) continue;
        if (s.oneshot_fired.empty()) continue;
        long got = (long)m_mod_src_len(s.handle(), M_SRC_TYPE_END);
        long want = (long)(s.subs.size() + s.srcs.size());
        if (got >= 0 && got != want)
            VIOL("C03", "C03:oneshot-still-registered", "module slot %d reports %ld registered sources, %ld are expected after its one-shot source(s) fired", s.idx, got, want);
    }
    // arrival log vs deliveries: a user descriptor the kernel reported ready must reach its RUNNING owner
    // (a level-triggered one may be skipped once when an earlier event of the batch failed; it is then reported again)
    if (W->quiescent_real) {
        oracle_eval("C03.reported-descriptor-delivered");
        for (; W->batches_seen < R->k.batches.size(); W->batches_seen++) {
            const sim::BatchRec &b = R->k.batches[W->batches_seen];
            for (auto &it : b.items)
                for (auto &s : W->slots) {
                    if (s.st != ST_RUNNING || s.st_gseq > b.gseq || s.ctx_gen != W->ctx_registrations) continue;
                    for (auto &x : s.srcs) {
                        if (x.type != M_SRC_TYPE_FD || (x.flags & M_SRC_DUP) || x.fd != it.fd || x.reg_gseq > b.gseq) continue;
                        if (x.delivered_gseq > b.gseq) { x.missed_polls = 0; continue; }
                        x.missed_polls++;
                        if (x.missed_polls >= 2 || it.oneshot)
                            VIOL("C03", it.oneshot ? "C03:reported-event-not-delivered:fd:oneshot" : "C03:reported-event-not-delivered:fd",
                                 "descriptor %d of module slot %d was reported ready by %d consecutive poll(s) but no event was handed to the module, which stayed RUNNING", x.fd, s.idx, x.missed_polls);
                    }
                }
        }
    }
    // what a RUNNING module has registered is being polled when the loop goes back to waiting - whenever it was registered (before the
    // loop, between two runs, from a callback): each descriptor source is in the interest list, and the list is at least as long as
    // the mailboxes and descriptor-backed sources (fd, timer, signal, path, pid) of the RUNNING modules
    if (W->quiescent_real && on("C03")) {
        oracle_eval("C03.registered-sources-polled");
        sim::File *ep = nullptr;
        for (int fd : R->k.open_fds(sim::OWN_LIB)) { sim::File *f = R->k.get(fd); if (f && f->kind == sim::F_EPOLL) ep = f; }
        if (ep) {
            size_t expected_min = 0;
            for (auto &s : W->slots) {
                if (s.st != ST_RUNNING || s.ctx_gen != W->ctx_registrations) continue;
                expected_min++;
                for (auto &x : s.srcs) {
                    if (x.type == M_SRC_TYPE_FD || x.type == M_SRC_TYPE_TMR || x.type == M_SRC_TYPE_SGN || x.type == M_SRC_TYPE_PATH || x.type == M_SRC_TYPE_PID) expected_min++;
                    if (x.type != M_SRC_TYPE_FD) continue;
                    sim::File *uf = R->k.get(x.fd);
                    if (!uf) { expected_min--; continue; }   // closed under the library (the kernel dropped it from the list)
                    bool found = false;
                    for (auto &rg : ep->regs) if (rg.file_id == uf->id) found = true;
                    if (!found)
                        VIOL("C03", "C03:registered-source-not-polled:fd", "descriptor %d, registered by module slot %d (RUNNING) at event %lu, is not in the context's interest list when the loop goes back to polling", x.fd, s.idx, (unsigned long)x.reg_gseq);
                }
            }
            if (ep->regs.size() < expected_min)
                VIOL("C03", "C03:registered-source-not-polled", "the context polls %zu descriptor(s) when it goes back to waiting; the RUNNING modules' mailboxes and descriptor-backed sources alone are %zu", ep->regs.size(), expected_min);
        }
    }
    // a blocking loop polls again only while it has a reason to keep running
    if (W->quiescent_real && !W->loops.empty() && !W->loops.back().ended && W->loops.back().blocking) {
        oracle_eval("C03.loop-continues-only-with-reason");
        LoopRun &lr = W->loops.back();
        int running = 0;
        for (auto &s : W->slots) if (s.st == ST_RUNNING && s.ctx_gen == W->ctx_registrations) running++;
        if (lr.quit_requested) VIOL("C03", "C03:loop-ignores-quit", "the blocking loop polls again although quit(%d) was requested", lr.quit_code);
        if (running == 0 && W->quiescent_points > 0 && !W->loop_start_pending_eval) VIOL("C03", "C03:loop-continues-without-modules", "the blocking loop polls again although no module is RUNNING");
    }
}

void orc_c03_loop_end(LoopRun &lr) {
    // "...after still-pending messages were handed to RUNNING modules"
    if (!lr.poll_failure) {
        oracle_eval("C03.pending-messages-flushed");
        for (auto &sd : W->sends) {
            if (sd.rc != 0 || sd.kind == 3 || sd.in_flush || sd.gseq > lr.end_gseq) continue;
            for (int e : sd.eligible) {
                if (sd.delivered.count(e) || sd.dead.count(e) || sd.unknown.count(e) || sd.oneshot_matched.count(e) || has(sd.overflow, e)) continue;
                Slot &r = W->slots[e];
                if (r.st != ST_RUNNING || r.last_non_running_gseq >= sd.gseq || r.batch_size || r.batch_timeout || r.ctx_gen != W->ctx_registrations) continue;
                if (r.pills_pending) continue;
                VIOL("C03", lr.quit_requested ? "C03:pending-message-not-flushed:quit" : "C03:pending-message-not-flushed",
                     "%s #%ld (sent at event %lu) was still pending for module slot %d, RUNNING since before it was sent, when the loop returned %d: it was never handed over",
                     kind_name(sd.kind), sd.id, (unsigned long)sd.gseq, e, lr.rc);
            }
        }
    }
    oracle_eval("C03.loop-exit-reason");
    int running = 0;
    for (auto &s : W->slots) if (s.st == ST_RUNNING && s.ctx_gen == W->ctx_registrations) running++;
    if (lr.poll_failure) return;   // genuine polling failure injected by the simulator: the loop may end with that errno
    if (lr.quit_requested) {
        if (lr.rc != lr.quit_code) VIOL("C03", "C03:loop-wrong-quit-code", "quit(%d) was requested but the loop returned %d", lr.quit_code, lr.rc);
        return;
    }
    // no quit requested, no polling failure: the only stated reason left is "no module RUNNING"
    if (lr.rc != 0) {
        char sig[64];
        snprintf(sig, sizeof sig, "C03:loop-exit-unexplained:rc=%d", lr.rc);
        VIOL("C03", sig, "the loop returned %d although no module requested quit and polling did not fail (%d module(s) RUNNING)", lr.rc, running);
    }
    if (running > 0 && lr.blocking) VIOL("C03", "C03:loop-exit-unexplained:running", "the blocking loop returned 0 with %d module(s) still RUNNING, no quit request and no polling failure", running);
}

// =================================================================== C08
void orc_c08_delivery(Delivery &d) {
    if (d.in_unstash) return;
    Slot &s = W->slots[d.slot];
    oracle_eval("C08.send-order");
    for (auto &e : d.evts) {
        if (e.type != M_SRC_TYPE_PS || e.system || e.send_id < 0) continue;
        SendRec &sd = W->sends[e.send_id];
        if (sd.gseq <= s.c08_last_send_gseq) {
            char sig[96];
            const char *phase = d.looping_known && !d.ctx_looping ? ":final-flush" : "";
            snprintf(sig, sizeof sig, "C08:out-of-order%s", phase);
            VIOL("C08", sig, "module slot %d received message #%ld (sent at event %lu) after message #%ld (sent at event %lu)", d.slot, sd.id, (unsigned long)sd.gseq, s.c08_last_send_id, (unsigned long)s.c08_last_send_gseq);
        }
        s.c08_last_send_gseq = sd.gseq;
        s.c08_last_send_id = sd.id;
        if (s.c08_pill_effect_gseq && sd.gseq > s.c08_pill_gseq && sd.gseq < s.c08_pill_effect_gseq)
            VIOL("C08", "C08:delivered-after-pill", "module slot %d received message #%ld which was sent after the poison pill that stopped it", d.slot, sd.id);
        // a pill accepted for this module (and written to its pipe) lies before this message in the same FIFO
        if (s.pills_pending > 0 && s.pending_pill_first_gseq && s.pending_pill_first_gseq < sd.gseq && !s.pill_overflowed && !s.pill_wildcard)
            VIOL("C08", "C08:delivered-after-pending-pill", "module slot %d received message #%ld (sent at event %lu) although a poison pill accepted earlier (event %lu) has not stopped it yet",
                 d.slot, sd.id, (unsigned long)sd.gseq, (unsigned long)s.pending_pill_first_gseq);
    }
}

void orc_c08_edge(int slot, int from, int to) {
    // (also decided in the C13 campaign: what a module holds back - low-priority events, a partial batch - is handed over before a pill stops it)
    if (!on("C08") && !on("C13")) return;
    Slot &s = W->slots[slot];
    if (from == ST_RUNNING && to == ST_STOPPED && s.pills_pending > 0 && !s.pill_wildcard && !frame_on_stack("stop", slot) && !frame_on_stack("dereg", slot) &&
        !frame_on_stack_any("ctx_dereg") && !s.start_refused_pending && (frame_on_stack_any("loop") || frame_on_stack_any("dispatch"))) {
        oracle_eval("C08.pill-barrier");
        R->ctr.probe("poison_pill_took_effect");
        uint64_t pill_gseq = s.pending_pill_first_gseq;
        s.c08_pill_gseq = pill_gseq;
        s.c08_pill_effect_gseq = R->gseq;
        for (auto &sd : W->sends) {
            if (sd.rc != 0 || sd.kind == 3 || sd.gseq >= pill_gseq || sd.in_flush) continue;   // (fate of sends made by final-flush handlers is unconstrained)
            if (!has(sd.eligible, slot) || has(sd.overflow, slot)) continue;
            if (sd.delivered.count(slot) || sd.dead.count(slot) || sd.unknown.count(slot)) continue;   // delivered, or (maybe) discarded at an earlier loop end
            if (sd.gseq <= s.c08_last_reset_gseq) continue;     // discarded by an earlier stop
            if (on("C13")) VIOL("C13", "C13:event-lost:pill", "poison pill (event %lu) stopped module slot %d (batch size %zu, timeout %lu ns) before message #%ld (sent earlier, at event %lu) was handed over: what the module held back was lost", (unsigned long)pill_gseq, slot, s.batch_size, (unsigned long)s.batch_timeout, sd.id, (unsigned long)sd.gseq);
            VIOL("C08", "C08:pill-overtook-message", "poison pill (event %lu) stopped module slot %d before message #%ld (sent earlier, at event %lu) was delivered", (unsigned long)pill_gseq, slot, sd.id, (unsigned long)sd.gseq);
        }
    }
    if (to == ST_STOPPED || to == ST_ZOMBIE) s.c08_last_reset_gseq = R->gseq;
}

void orc_c08_loop_end(LoopRun &lr) { (void)lr; }

// =================================================================== C09 (helpers called from the interpreter)
static int type_count(Slot &s, int type) {
    int n = 0;
    for (auto &k : s.c09_model) if (std::get<0>(k) == type) n++;
    return n;
}
void c09_check_counts(int slot, const char *after) {
    if (!on("C09")) return;
    if (frame_on_stack("dereg", slot) || frame_on_stack_any("ctx_dereg")) return;   // being deregistered: its sets are going away
    Slot &s = W->slots[slot];
    m_mod_t *h = s.handle();
    if (!h || s.st == ST_ZOMBIE || s.st == ST_NONE) return;
    oracle_eval("C09.counts");
    static const char *TN[] = {"ps", "fd", "tmr", "sgn", "path", "pid", "task", "thresh", "total"};
    for (int t = 0; t <= M_SRC_TYPE_END; t++) {
        long got = (long)m_mod_src_len(h, (m_src_types)t);
        long want = t == M_SRC_TYPE_END ? (long)s.c09_model.size() : type_count(s, t);
        if (got < 0) return;   // not callable here (foreign thread / denied): nothing to compare
        if (got != want) {
            char sig[64];
            snprintf(sig, sizeof sig, "C09:count-mismatch:%s", TN[t]);
            VIOL("C09", sig, "after %s: module slot %d reports %ld %s source(s), the set holds %ld", after, slot, got, TN[t], want);
        }
    }
}
// returns nothing; raises on mismatch. present_before is decided by the model.
extern int g_src_unpollable_pid;
extern bool g_src_unpollable_fd;
void c09_register(int slot, int type, long k1, long k2, bool params_valid, int rc, bool update_in_place_ok, const std::string &snap0) {
    if (!on("C09")) return;
    Slot &s = W->slots[slot];
    static const char *TN[] = {"ps", "fd", "tmr", "sgn", "path", "pid", "task", "thresh"};
    auto key = std::make_tuple(type, k1, k2);
    bool present = s.c09_model.count(key) > 0;
    char sig[96];
    oracle_eval("C09.register");
    if (s.st == ST_ZOMBIE || s.st == ST_NONE) return;
    if (frame_on_stack("dereg", slot) || frame_on_stack_any("ctx_dereg")) return;
    if (!params_valid) {
        if (rc == 0) { snprintf(sig, sizeof sig, "C09:bad-params-accepted:%s", TN[type]); VIOL("C09", sig, "registration with invalid parameters returned 0"); }
        std::string s1 = snapshot();
        if (snap0 != s1) { snprintf(sig, sizeof sig, "C09:bad-params-left-trace:%s", TN[type]); VIOL("C09", sig, "a registration rejected for bad parameters changed the observable state: %s -> %s", snap0.c_str(), s1.c_str()); }
        return;
    }
    if (present) {
        if (update_in_place_ok) {
            if (rc != 0) { snprintf(sig, sizeof sig, "C09:resubscribe-refused"); VIOL("C09", sig, "repeated subscription returned %d", rc); }
        } else if (rc != -EEXIST) {
            snprintf(sig, sizeof sig, "C09:duplicate-key:%s:rc=%s", TN[type], rc == 0 ? "0" : "other");
            VIOL("C09", sig, "registering a %s source whose key is already present returned %d instead of -EEXIST", TN[type], rc);
        }
    } else {
        if (rc != 0 && ((type == M_SRC_TYPE_PID && g_src_unpollable_pid >= 0 && R->k.reaped_pids.count(g_src_unpollable_pid)) || (type == M_SRC_TYPE_FD && g_src_unpollable_fd && rc != -EEXIST))) {
            // the key is fine but the object behind it cannot be polled (a process that is gone): refused - without a trace
            if (snap0 != snapshot()) { snprintf(sig, sizeof sig, "C09:refused-registration-left-trace:%s", TN[type]); VIOL("C09", sig, "a registration refused with %d changed the observable state", rc); }
            c09_check_counts(slot, "refused register");
            return;
        }
        if (rc != 0) {
            bool other = false;
            if (type == M_SRC_TYPE_FD && rc == -EEXIST)
                for (auto &o : W->slots) if (o.idx != slot && o.ctx_gen == s.ctx_gen) for (auto &x : o.srcs) if (x.type == M_SRC_TYPE_FD && x.ufd == (int)k1) other = true;
            snprintf(sig, sizeof sig, "C09:new-key-refused:%s%s", TN[type], other ? ":polled-for-another-module" : "");
            VIOL("C09", sig, "registering a new %s key returned %d%s", TN[type], rc, other ? " (the descriptor is registered by another module of the same context)" : "");
        }
        s.c09_model.insert(key);
    }
    c09_check_counts(slot, "register");
}
void c09_deregister(int slot, int type, long k1, long k2, int rc, const std::string &snap0) {
    if (!on("C09")) return;
    Slot &s = W->slots[slot];
    static const char *TN[] = {"ps", "fd", "tmr", "sgn", "path", "pid", "task", "thresh"};
    if (s.st == ST_ZOMBIE || s.st == ST_NONE) return;
    if (frame_on_stack("dereg", slot) || frame_on_stack_any("ctx_dereg")) return;
    auto key = std::make_tuple(type, k1, k2);
    bool present = s.c09_model.count(key) > 0;
    char sig[96];
    oracle_eval("C09.deregister");
    if (type == M_SRC_TYPE_TASK) {
        if (rc >= 0) VIOL("C09", "C09:task-deregistered", "deregistering a task source returned %d", rc);
        if (snap0 != snapshot()) VIOL("C09", "C09:task-deregister-had-effect", "refused task deregistration changed the observable state");
    } else if (present) {
        if (rc != 0) { snprintf(sig, sizeof sig, "C09:remove-present-failed:%s", TN[type]); VIOL("C09", sig, "deregistering a present %s key returned %d", TN[type], rc); }
        s.c09_model.erase(key);
    } else {
        if (rc >= 0) { snprintf(sig, sizeof sig, "C09:remove-absent-ok:%s", TN[type]); VIOL("C09", sig, "deregistering an absent %s key returned %d", TN[type], rc); }
        std::string s1 = snapshot();
        if (snap0 != s1) { snprintf(sig, sizeof sig, "C09:remove-absent-had-effect:%s", TN[type]); VIOL("C09", sig, "deregistering an absent %s key changed the observable state: %s -> %s", TN[type], snap0.c_str(), s1.c_str()); }
    }
    c09_check_counts(slot, "deregister");
}
void orc_c09_api(const ApiRec &r, const Frame &f, const std::string &snap0, const std::string &snap1) {
    (void)f; (void)snap0; (void)snap1;
    // sets survive pause/resume/loop restart and are empty after stop: checked through the counts after every lifecycle call
    if (r.name == "start" || r.name == "pause" || r.name == "resume" || r.name == "stop" || r.name == "loop" || r.name == "dispatch") {
        for (auto &s : W->slots) if (s.handle() && W->frames.empty()) c09_check_counts(s.idx, r.name.c_str());
    }
}

// =================================================================== C07
void orc_c07_api(const ApiRec &r, const Frame &f, const std::string &snap0, const std::string &snap1) {
    const std::string &n = r.name;
    oracle_eval("C07.context-model");
    int registered_now = 0;
    for (auto &s : W->slots) if (ctx_member(s)) registered_now++;   // (a module nobody asked to deregister is a member whatever became of it)
    if (n == "ctx_reg") {
        if (W->has_ctx) { if (r.rc != -EEXIST) VIOL("C07", "C07:second-context", "registering a second context on the thread returned %d instead of -EEXIST", r.rc); }
        else if (r.rc != 0) VIOL("C07", "C07:fresh-context-refused", "registering a context on a thread without one returned %d", r.rc);
        return;
    }
    // inside a callback of a module registered with M_MOD_DENY_CTX the context is hidden from context-level calls: they are
    // refused (C15 decides how); once a nested callback has run and returned inside it, visibility is unspecified here
    if (n.rfind("ctx_", 0) == 0 || n == "loop" || n == "dispatch") {
        for (int i = (int)W->frames.size() - 1; i >= 0; i--) {
            const Frame &cf = W->frames[i];
            if (!cf.is_cb) continue;
            if (cf.slot >= 0 && (W->slots[cf.slot].flags & M_MOD_DENY_CTX)) {
                if (cf.nested > 0 || n == "ctx_misc") return;
                if (r.rc >= 0) VIOL("C07", "C07:context-call-from-deny-ctx-module-accepted", "%s called from a callback of a M_MOD_DENY_CTX module returned %d", n.c_str(), r.rc);
                if (!snap1.empty() && snap0 != snap1) VIOL("C07", "C07:context-call-from-deny-ctx-module-had-effect", "refused %s changed the observable state", n.c_str());
                return;
            }
            break;
        }
    }
    if (!W->has_ctx && !f.had_ctx_at_entry) {
        // context-less thread: every context call / module operation fails and changes nothing
        if (n == "ctx_misc" || n == "query") return;
        if (r.rc >= 0 && n != "reg") VIOL("C07", "C07:call-without-context-accepted", "%s on a thread without a context returned %d", n.c_str(), r.rc);
        if (n == "reg" && r.rc >= 0) VIOL("C07", "C07:call-without-context-accepted", "m_mod_register on a thread without a context returned %d", r.rc);
        if (!snap1.empty() && snap0 != snap1) VIOL("C07", "C07:call-without-context-had-effect", "%s on a thread without a context changed the observable state", n.c_str());
        return;
    }
    if (!W->has_ctx) return;
    if (n == "ctx_dereg") {
        if (frame_on_stack_any("ctx_dereg")) return;   // re-entrant call from a callback of the deregistration itself: unconstrained
        if (W->c07_looping_at_entry) {
            if (r.rc >= 0) VIOL("C07", "C07:deregister-while-looping", "m_ctx_deregister on a looping context returned %d", r.rc);
            if (snap0 != snap1) VIOL("C07", "C07:deregister-while-looping-had-effect", "refused m_ctx_deregister changed the observable state");
            return;
        }
        if (r.rc != 0) VIOL("C07", "C07:deregister-idle-refused", "m_ctx_deregister on an idle context returned %d", r.rc);
        for (auto &s : W->slots) {
            if (s.ctx_gen != W->ctx_registrations || s.st == ST_NONE) continue;
            if (leaving(s.idx)) continue;   // in the middle of its own deregistration / replacement (we are inside one of its callbacks)
            if (s.st != ST_ZOMBIE)
                VIOL("C07", "C07:module-survives-context", "module slot %d is still %s after its context was deregistered", s.idx, st_name(s.st));
            auto it = W->c07_active_before.find(s.idx);
            if (it != W->c07_active_before.end() && s.has_stop) {
                int ran = s.n_cb[CB_STOP] - it->second;
                int edges = s.leave_active - W->c07_edges_before[s.idx];   // the module may have been restarted by its own callback and stopped again
                if (ran < 1) VIOL("C07", "C07:teardown-no-stop-callback", "module slot %d was RUNNING/PAUSED when its context was deregistered; its stop callback did not run", s.idx);
                (void)edges;   // how often it runs beyond that is C01's business (a callback may stop/restart the module meanwhile)
            }
        }
        if (m_ctx_len() >= 0) VIOL("C07", "C07:context-survives-deregister", "the thread still has a context after m_ctx_deregister returned 0");
        return;
    }
    if (n == "reg" && W->ctx_finalized && f.gseq > W->ctx_finalized_gseq) {   // (a registration already in progress when a callback finalised the context is not "further")
        if (r.rc >= 0) VIOL("C07", "C07:register-after-finalize", "m_mod_register in a finalised context returned %d", r.rc);
        return;
    }
    if (n == "dereg" && r.rc == 0 && W->frames.empty() && f.ctx_gen_at_entry == W->ctx_registrations) {
        bool persist = W->ctx_flags & M_CTX_PERSIST;
        bool known;
        bool looping = ctx_is_looping_probe(&known);
        if (registered_now == 0 && !persist && !W->ctx_looping) {
            if (known) VIOL("C07", "C07:context-not-released-with-last-module", "the idle non-persistent context still exists after its last module was deregistered");
        } else if (!known) {
            VIOL("C07", "C07:context-released-early", "the context vanished although %s", persist ? "it is persistent" : looping ? "it is looping" : "modules remain registered");
        }
    }
    if ((n == "loop" || n == "dispatch") && !W->ctx_looping && W->frames.empty()) {
        // after a loop run: a non-persistent context without modules is released when the loop returns
        bool persist = W->ctx_flags & M_CTX_PERSIST;
        bool known;
        ctx_is_looping_probe(&known);
        if (!W->loops.empty() && W->loops.back().ended && W->loops.back().end_gseq >= f.gseq) {
            if (registered_now == 0 && !persist && known) VIOL("C07", "C07:context-not-released-after-loop", "non-persistent context without modules still exists after the loop returned");
            if ((registered_now > 0 || persist) && !known) VIOL("C07", "C07:context-released-early", "the context vanished when the loop returned although %s", persist ? "it is persistent" : "modules remain registered");
        }
    }
}

void orc_c07_run_end() {
    oracle_eval("C07.released");
    // after teardown: context memory released, poll descriptor closed
    for (int fd : R->k.open_fds(sim::OWN_LIB))
        if (R->k.get(fd)->kind == sim::F_EPOLL) VIOL("C07", "C07:poll-descriptor-left-open", "the context's poll descriptor %d is still open after the context was released", fd);
    if (R->a.outstanding() != 0)
        VIOL("C07", "C07:context-memory-not-released", "%zu allocation(s) outstanding after the context was deregistered and all references dropped", R->a.outstanding());
}

// =================================================================== C20
void orc_c20_run_end() {
    oracle_eval("C20.close-ledger");
    for (auto &c : R->k.closes) {
        if (c.by != sim::OWN_LIB) continue;
        if (!c.was_open && c.fd >= 0) VIOL("C20", "C20:close-of-closed-descriptor", "the library closed descriptor %d which was not open", c.fd);
        if (!c.was_open) continue;   // (close(-1) after a failed open closes nothing: not a descriptor of anybody's)
        if (c.fd_owner == sim::OWN_USER) {
            bool ok = false;
            for (auto &ar : W->autoclose_regs)
                if (ar.fd == c.fd && ar.file_id == c.file_id && !ar.closed) { ar.closed = true; ar.close_gseq = c.gseq; ok = true; break; }
            if (!ok) {
                bool twice = false;
                for (auto &ar : W->autoclose_regs) if (ar.fd == c.fd && ar.file_id == c.file_id) twice = true;
                VIOL("C20", twice ? "C20:user-descriptor-closed-twice" : "C20:user-descriptor-closed-without-autoclose",
                     "the library closed user descriptor %d %s", c.fd, twice ? "a second time" : "that was not registered with the auto-close flag");
            }
        }
    }
    for (auto &io : R->k.ios) {
        if (io.by != sim::OWN_LIB) continue;
        if (io.ret < 0 && io.err == EBADF) VIOL("C20", io.is_write ? "C20:write-to-closed-descriptor" : "C20:read-from-closed-descriptor", "the library used descriptor %d after it was closed", io.fd);
    }
    oracle_eval("C20.nothing-left-open");
    for (int fd : R->k.open_fds(sim::OWN_LIB)) {
        static const char *KN[] = {"std", "pipe-read", "pipe-write", "eventfd", "timerfd", "signalfd", "inotify", "pidfd", "epoll"};
        char sig[64];
        snprintf(sig, sizeof sig, "C20:descriptor-left-open:%s", KN[R->k.get(fd)->kind]);
        VIOL("C20", sig, "descriptor %d (%s) opened by the library is still open after the context is gone and all references were dropped", fd, KN[R->k.get(fd)->kind]);
    }
    for (auto &ar : W->autoclose_regs)
        if (ar.removed && !ar.closed) VIOL("C20", "C20:autoclose-descriptor-not-closed", "user descriptor %d registered with the auto-close flag was not closed although its source is gone", ar.fd);
}

// =================================================================== stubs filled in by oracles3.cc
