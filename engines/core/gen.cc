// Program generators (swarm style): every run draws its own configuration, op mix, fault kinds and rates.
#include "core.h"

namespace {

enum Cat { LIFE, MSG, SUBS, SRC, ENV, STASH, BECOME, BATCH, TB, CTX, REF, ERRNO, QUERY, SETEVAL, BURST, REG, NCAT };

struct Profile {
    int w_driver[NCAT];     // weights of op categories for driver ops
    int w_script[NCAT];     // ... for callback scripts
    unsigned mod_flag_bits; // allowed module flag bits (see 'reg' op)
    int src_kinds;          // bitmask of source kinds: 1 fd 2 tmr 4 sgn 8 path 16 pid 32 task 64 thresh
    int src_flag_bits;      // allowed source flag bits (see src_flags_from)
    int sub_flag_bits;
    bool sys_topics, bad_topics, bad_params;
    bool eintr, subset, late, cost;
    int max_mods;
    bool hooks_all;         // prefer modules with all hooks
    bool multi_loop;
};

Profile profile_for(const std::string &c) {
    Profile p{};
    auto set = [&](int *w, std::initializer_list<std::pair<Cat, int>> l) { for (auto &kv : l) w[kv.first] = kv.second; };
    p.max_mods = 4;
    p.eintr = p.subset = p.late = p.cost = true;
    p.src_flag_bits = 1 | 2;
    p.sub_flag_bits = 2 | 4;
    p.multi_loop = true;
    if (c == "C01") {
        set(p.w_driver, {{LIFE, 40}, {MSG, 12}, {SUBS, 4}, {SETEVAL, 6}, {REG, 8}, {QUERY, 2}, {ENV, 2}, {SRC, 3}, {BATCH, 3}});
        set(p.w_script, {{LIFE, 40}, {MSG, 14}, {SETEVAL, 6}, {CTX, 8}, {REG, 6}, {SUBS, 3}, {BATCH, 2}});
        p.mod_flag_bits = 1; p.src_kinds = 2; p.hooks_all = true; p.sub_flag_bits = 2 | 4 | 16;   // (batched / low-priority events: handlers also run when a pill hands them over)
    } else if (c == "C02") {
        set(p.w_driver, {{LIFE, 14}, {MSG, 40}, {SUBS, 18}, {REG, 4}, {BURST, 1}, {BATCH, 3}});
        set(p.w_script, {{LIFE, 14}, {MSG, 36}, {SUBS, 10}, {CTX, 12}, {REG, 2}, {BURST, 1}, {BATCH, 2}});
        p.mod_flag_bits = 1; p.src_kinds = 0; p.sub_flag_bits = 1 | 2 | 4 | 16;   // (one-shot and low-priority subscriptions, batching: messages held back / subscriptions changing while a message is in flight)
    } else if (c == "C03") {
        set(p.w_driver, {{LIFE, 10}, {MSG, 14}, {SUBS, 8}, {SRC, 34}, {ENV, 26}, {REG, 3}});
        set(p.w_script, {{LIFE, 10}, {MSG, 12}, {SRC, 10}, {ENV, 12}, {CTX, 12}, {ERRNO, 22}, {SUBS, 4}});
        p.mod_flag_bits = 1; p.src_kinds = 127; p.src_flag_bits = 1 | 2 | 4; p.sub_flag_bits = 1 | 2 | 4 | 16 | 32;   // (low/high priority subscriptions too: a parked low-priority message still belongs to its owner, with its user data)
    } else if (c == "C04") {
        set(p.w_driver, {{LIFE, 16}, {MSG, 16}, {SUBS, 10}, {SRC, 18}, {ENV, 12}, {BATCH, 3}, {TB, 1}, {CTX, 4}, {REF, 8}, {QUERY, 5}, {REG, 8}, {BURST, 1}, {SETEVAL, 2}, {STASH, 4}});   // (unstash from outside any delivery too)
        set(p.w_script, {{LIFE, 18}, {MSG, 16}, {SUBS, 10}, {SRC, 12}, {ENV, 6}, {STASH, 8}, {BECOME, 4}, {BATCH, 3}, {CTX, 8}, {REF, 12}, {ERRNO, 2}, {QUERY, 4}, {REG, 5}, {BURST, 1}});
        p.mod_flag_bits = 1 | 2 | 8; p.src_kinds = 127; p.src_flag_bits = 1 | 2 | 4 | 8; p.sub_flag_bits = 1 | 2 | 4 | 16 | 32; p.sys_topics = true; p.max_mods = 5;
    } else if (c == "C07") {
        set(p.w_driver, {{CTX, 40}, {REG, 20}, {LIFE, 24}, {MSG, 6}, {QUERY, 3}});
        set(p.w_script, {{CTX, 30}, {REG, 12}, {LIFE, 30}, {MSG, 8}});
        p.mod_flag_bits = 1 | 2 | 4 | 16; p.src_kinds = 0; p.hooks_all = true;   // name dup, allow-replace, persist, deny-ctx
    } else if (c == "C08") {
        set(p.w_driver, {{LIFE, 12}, {MSG, 50}, {SUBS, 12}, {BATCH, 8}});
        set(p.w_script, {{LIFE, 10}, {MSG, 50}, {CTX, 10}, {BATCH, 6}, {STASH, 4}});
        p.mod_flag_bits = 0; p.src_kinds = 0; p.sub_flag_bits = 16 | 32;   // (low/high priority subscriptions: parked and urgent messages keep the send order too)
    } else if (c == "C09") {
        set(p.w_driver, {{SRC, 56}, {SUBS, 16}, {LIFE, 14}, {REG, 3}, {ENV, 4}, {MSG, 8}, {BATCH, 4}});   // (the batch time-out is an internal timer living next to the user's)
        set(p.w_script, {{SRC, 36}, {SUBS, 12}, {LIFE, 10}, {CTX, 8}, {MSG, 8}, {BATCH, 2}});
        p.mod_flag_bits = 0; p.src_kinds = 127; p.src_flag_bits = 1 | 2 | 4; p.sub_flag_bits = 1 | 2 | 4 | 16 | 32; p.bad_params = true; p.bad_topics = true;
    } else if (c == "C13") {
        set(p.w_driver, {{BATCH, 24}, {MSG, 36}, {SUBS, 16}, {SRC, 8}, {ENV, 8}, {LIFE, 10}, {TB, 3}});   // (a token bucket brings another internal timer next to the batch timer)
        set(p.w_script, {{BATCH, 16}, {MSG, 36}, {LIFE, 8}, {CTX, 8}, {ENV, 6}, {TB, 1}});
        p.mod_flag_bits = 0; p.src_kinds = 1 | 2; p.src_flag_bits = 0; p.sub_flag_bits = 16 | 32 | 64;
    } else if (c == "C15") {
        set(p.w_driver, {{REG, 24}, {LIFE, 20}, {MSG, 20}, {SUBS, 14}, {CTX, 10}, {TB, 2}});   // (with a token bucket a denied call that is charged shows up as a later refusal)
        set(p.w_script, {{REG, 10}, {LIFE, 24}, {MSG, 24}, {SUBS, 16}, {CTX, 24}, {TB, 1}});
        p.mod_flag_bits = 1 | 2 | 4 | 16 | 32 | 64; p.src_kinds = 0; p.bad_topics = true; p.hooks_all = true;
    } else if (c == "C16") {
        set(p.w_driver, {{MSG, 44}, {SUBS, 12}, {LIFE, 10}, {STASH, 14}, {BECOME, 4}, {SRC, 8}, {ENV, 8}, {TB, 2}});
        set(p.w_script, {{STASH, 50}, {MSG, 22}, {LIFE, 8}, {CTX, 8}, {BECOME, 6}, {ENV, 4}});
        p.mod_flag_bits = 0; p.src_kinds = 1 | 2; p.src_flag_bits = 1 | 32; p.sub_flag_bits = 1 | 16 | 32 | 64;   // one-shot and high-priority sources too: their events must not be stashable
    } else if (c == "C17") {
        set(p.w_driver, {{MSG, 44}, {BECOME, 30}, {LIFE, 16}, {STASH, 6}, {TB, 3}});   // (a refused become/unbecome must leave the stack alone)
        set(p.w_script, {{BECOME, 44}, {MSG, 26}, {LIFE, 12}, {CTX, 8}, {STASH, 8}});
        p.mod_flag_bits = 0; p.src_kinds = 0; p.sub_flag_bits = 0;
    } else if (c == "C18") {
        set(p.w_driver, {{TB, 22}, {MSG, 30}, {LIFE, 14}, {SUBS, 10}, {SRC, 12}, {BECOME, 6}, {BATCH, 5}});   // (the batch time-out is another internal timer of the module)
        set(p.w_script, {{TB, 10}, {MSG, 40}, {LIFE, 12}, {SUBS, 10}, {SRC, 8}, {CTX, 8}, {BECOME, 6}, {BATCH, 2}});
        p.mod_flag_bits = 0; p.src_kinds = 2; p.src_flag_bits = 0; p.sub_flag_bits = 0; p.eintr = false;
    } else if (c == "C19") {
        set(p.w_driver, {{SUBS, 30}, {LIFE, 36}, {REG, 8}, {CTX, 10}, {MSG, 6}});
        set(p.w_script, {{LIFE, 40}, {SUBS, 16}, {CTX, 16}, {REG, 6}, {MSG, 6}});
        p.mod_flag_bits = 32 | 64; p.src_kinds = 0; p.sub_flag_bits = 0; p.sys_topics = true; p.hooks_all = true;   // (modules denied publishing/subscribing still are the subject of notifications)
    } else if (c == "C20") {
        set(p.w_driver, {{SRC, 50}, {LIFE, 24}, {ENV, 10}, {REG, 5}, {MSG, 4}, {REF, 4}});
        set(p.w_script, {{SRC, 30}, {LIFE, 26}, {CTX, 8}, {REF, 14}, {MSG, 4}});
        p.mod_flag_bits = 1 | 2 | 4; p.src_kinds = 127; p.src_flag_bits = 1 | 2 | 4 | 8; p.sub_flag_bits = 0; p.hooks_all = true;   // (replaceable and persistent modules: other ways for a module to go, or to stay)
    } else {
        set(p.w_driver, {{LIFE, 20}, {MSG, 20}});
        set(p.w_script, {{LIFE, 20}, {MSG, 20}});
    }
    return p;
}

struct Gen {
    sim::Rng r;
    Profile pf;
    Program p;
    int nmods = 0;
    bool tasks_in_program = false;
    bool full_bursts = false;
    std::vector<std::vector<long>> remembered_subs;   // C16: subscriptions that may be renewed in place (same topic and flags, fresh user data) next to a stash
    bool batching_mode = false;   // C09: this program configures batch time-outs (internal timers next to the user's) and therefore uses no one-shot source:
                                  // a one-shot source leaves its set when its event is received, which with batching is not when it is handed over
    bool thorough = false;
    bool churn_mode = false;      // C02: handlers register/deregister modules often (a walk over the modules that such a call interrupts has to be resumed
                                  // as often as it takes), more modules, a broadcast right before the quit
    std::string camp;

    long rmod() { return (long)r.below(std::max(1, nmods + 1)); }
    long rbits(long allowed, double pr = 0.3) {
        long v = 0;
        for (int b = 0; b < 16; b++) if ((allowed >> b) & 1) if (r.chance(pr)) v |= 1L << b;
        return v;
    }
    long rtopic(bool for_sub) {
        if (pf.bad_topics && r.chance(0.12)) return 200 + (long)r.below(3);
        if (pf.sys_topics && for_sub && r.chance(camp == "C19" ? 0.8 : 0.3)) return 100 + (long)r.below(6);
        if (for_sub) return (long)r.below(TOPIC_POOL_N);
        long k = (long)r.below(7);   // published: the five plain topics and the two literal topics that are not self-matching expressions
        return k < 5 ? k : 10 + (k - 5);
    }

    void gen_op(const std::string &where, Cat c, bool in_cb) {
        switch (c) {
        case LIFE: {
            static const char *names[] = {"start", "pause", "resume", "stop", "dereg", "start", "stop", "pause", "resume"};
            int n = in_cb ? 9 : 9;
            const char *nm = names[r.below(n)];
            if (!strcmp(nm, "dereg") && r.chance(0.5)) nm = "stop";
            if (churn_mode && in_cb && r.chance(0.3)) nm = "dereg";
            // avoid(known finding: task thread vs module stop/pause): programs that use task sources outside C04 do not
            // stop/pause/deregister modules
            if (tasks_in_program && camp != "C04" && strcmp(nm, "start") && strcmp(nm, "resume")) nm = "start";
            // ... and a stop callback (which also runs at teardown) starts nothing: a module started then would launch its tasks and be stopped under them
            if (tasks_in_program && camp != "C04" && where.find(".stop.") != std::string::npos) { p.add(where, "query", {rmod(), (long)r.below(4)}); break; }
            long target = rmod();
            p.add(where, nm, {target});
            // C13: settings left over from before a stop must not matter: a (re)started module is told once more that it does not batch
            if (camp == "C13" && !strcmp(nm, "start") && r.chance(0.3)) p.add(where, r.chance(0.5) ? "batch_size" : "batch_timeout", {target, 0});
            break;
        }
        case REG: {
            long hooks = pf.hooks_all ? (r.chance(0.7) ? 7 : (long)r.below(8)) : (long)r.below(8);
            long mfl = rbits(pf.mod_flag_bits, 0.3);
            // avoid(known finding: task thread vs module stop): a replacing registration deregisters the old module - not next to task sources outside C04
            if (tasks_in_program && camp != "C04") mfl &= ~2L;
            p.add(where, "reg", {(long)r.below(camp == "C15" || camp == "C07" || camp == "C01" ? 3 : NAME_POOL_N), mfl, hooks, r.chance(0.75) ? 1 : 0});
            nmods++;
            break;
        }
        case MSG: {
            int k = (int)r.below(10);
            long af = r.chance(0.4) ? 1 : 0;
            if (k < 4) p.add(where, "tell", {rmod(), rmod(), af});
            else if (k < 7) p.add(where, "pub", {rmod(), rtopic(false), af});
            else if (k < 9) p.add(where, "bcast", {rmod(), af});
            else if (tasks_in_program && camp != "C04") p.add(where, "tell", {rmod(), rmod(), af});   // avoid(known finding: task thread vs module stop): a pill stops its recipient
            else p.add(where, "pill", {rmod(), rmod()});
            break;
        }
        case BURST:
            // crossing the mailbox capacity (8192 messages) is the point of a burst; small ones only add volume
            // (a program either works at mailbox capacity or it does not: full-size bursts are expensive, most programs should stay short)
            p.add(where, "burst", {rmod(), rmod(), full_bursts ? (long)r.range(8150, 8300) : (long)r.range(100, 400), r.chance(0.3) ? 1 : 0});
            break;
        case SUBS:
            if (r.chance(0.75)) {
                long fl = rbits(pf.sub_flag_bits, 0.25);
                // C09 compares set sizes at call boundaries: a LOW one-shot subscription is consumed when its message is received but the
                // event is handed over later (with the next invocation), so its membership is not observable in between: not generated there
                if ((camp == "C09" || camp == "C03") && (fl & 1)) fl &= ~16L;
                if (batching_mode) fl &= ~1L;
                if (camp == "C02" && !batching_mode) fl &= ~16L;   // C02: either held-back messages (batching, low priority) or one-shot subscriptions, not both in one program
                long mod = rmod(), topic = rtopic(true);
                p.add(where, "sub", {mod, topic, fl});
                if (camp == "C16" && remembered_subs.size() < 6) remembered_subs.push_back({mod, topic, fl});
                // bias: in-flight state around a one-shot subscription - a message pending for it, the topic subscribed again with other
                // flags meanwhile, the loop asked to quit before the message is dispatched
                if ((fl & 1) && topic < 5 && r.chance(0.35)) {
                    p.add(where, "pub", {rmod(), topic, 0});
                    if (r.chance(0.6)) p.add(where, "sub", {mod, topic, (fl ^ 32) & ~(r.chance(0.5) ? 1L : 0L)});
                    if (r.chance(0.4)) p.add(where, "ctx_quit", {0});
                }
            }
            else p.add(where, "unsub", {rmod(), rtopic(true)});
            break;
        case SRC: {
            if (!pf.src_kinds) { gen_op(where, MSG, in_cb); break; }
            int kind;
            do { kind = (int)r.below(7); } while (!((pf.src_kinds >> kind) & 1) || (kind == 5 && !tasks_in_program && (pf.src_kinds & ~32)) || (batching_mode && kind >= 4));
            bool reg = r.chance(0.68);
            long fl = rbits(pf.src_flag_bits, 0.25);
            if (batching_mode) fl &= ~1L;
            bool bad = pf.bad_params && r.chance(0.06);
            switch (kind) {
            case 0: p.add(where, reg ? "src_fd" : "unsrc_fd", {rmod(), (long)r.below(3), (camp == "C09" ? (fl & ~4L) : fl) | (bad ? 16 : 0)}); break;
            case 1: {
                long ki = camp == "C09" ? (long)r.below(TMR_NS_POOL_N) : (long)r.range(2, 8);
                if (camp == "C03" || camp == "C04" || camp == "C20") ki = (long)r.range(1, 8);
                p.add(where, reg ? "src_tmr" : "unsrc_tmr", {rmod(), bad ? -1 : ki, fl, 0});
                break;
            }
            case 2: p.add(where, reg ? "src_sgn" : "unsrc_sgn", {rmod(), bad ? -1 : (long)r.below(4), fl}); break;
            case 3: p.add(where, reg ? "src_path" : "unsrc_path", {rmod(), bad ? -1 : (long)r.below(PATH_POOL_N), fl}); break;
            case 4: p.add(where, reg ? "src_pid" : "unsrc_pid", {rmod(), bad ? -1 : (long)r.below(4), fl}); break;
            case 5:
                // avoid(known finding: task thread vs module stop): outside C04 no task is launched from a stop callback (the module goes away under it)
                if (camp != "C04" && where.find(".stop.") != std::string::npos) { p.add(where, "src_sgn", {rmod(), (long)r.below(4), fl}); break; }
                // (outside C04 a task source is not deregistered by hand either: its thread may be running - same known finding)
                p.add(where, reg || r.chance(0.7) || camp != "C04" ? "src_task" : "unsrc_task", {rmod(), (long)r.below(4), (long)r.below(5) * (long)r.below(2000), (long)r.below(100), fl, bad ? 1 : 0}); break;
            case 6: {
                // activity frequency = arg/4: values far apart and values closer than 1.0 to each other (keys that differ only by a fraction)
                static const long freqs[] = {0, 400000, 1, 2, 8, 10, 11};
                long fq = camp == "C09" || camp == "C04" ? freqs[r.below(7)] : (long)r.below(2) * 400000;
                p.add(where, reg ? "src_thresh" : "unsrc_thresh", {rmod(), bad ? 0 : (long)r.range(1, 3) * 5, bad ? 0 : fq, fl});
                break;
            }
            }
            break;
        }
        case ENV: {
            int k = (int)r.below(10);
            long dt = r.chance(0.5) ? 0 : (long)r.below(3) * 5000 + (long)r.below(3);
            long kind = k < 5 ? 0 : k < 7 ? 1 : k < 8 ? 2 : k < 9 ? 3 : 4;
            if (kind == 0 && r.chance(0.12)) kind = 5;   // peer hang-up
            long x = kind == 0 ? (long)r.below(3) : kind == 1 ? (long)r.below(4) : kind == 2 ? (long)r.below(4) : kind == 3 ? (long)r.below(PATH_POOL_N) : (long)r.range(-50, 50);
            p.add(where, "env_at", {dt, kind, x, (long)r.range(1, 8)});
            break;
        }
        case STASH:
            if (r.chance(0.55)) {
                p.add(where, "stash", {rmod(), (long)r.below(4)});
                // bias: the subscription the stashed message may have come through is renewed in place (its user data changes) before the unstash
                if (!remembered_subs.empty() && r.chance(0.25)) { auto &rs = remembered_subs[r.below(remembered_subs.size())]; p.add(where, "sub", {rs[0], rs[1], rs[2]}); }
            }
            else {
                long target = rmod();
                // C04 bias: the handler that is handed the unstashed events ends by deregistering its module (with the program's last reference, if it keeps none)
                if (camp == "C04" && !in_cb && r.chance(0.5)) p.add(where, "arm_dereg", {target});
                p.add(where, "unstash", {target, r.chance(0.15) ? -1 : (long)r.range(1, 5)});
            }
            break;
        case BECOME:
            if (r.chance(0.6)) p.add(where, "become", {rmod(), (long)r.below(3)});
            else p.add(where, "unbecome", {rmod()});
            break;
        case BATCH:
            if (camp == "C09" && !batching_mode) { gen_op(where, SRC, in_cb); break; }
            if (camp == "C02" && !batching_mode) { gen_op(where, MSG, in_cb); break; }
            if (r.chance(0.6)) p.add(where, "batch_size", {rmod(), (long)(r.chance(0.2) ? 0 : r.range(1, 5))});
            else p.add(where, "batch_timeout", {rmod(), (long)(r.chance(0.2) ? 0 : r.range(2, 7))});
            break;
        case TB: {
            static const long rates[] = {0, 1, 10, 100, 1000, 100000, 1000000, 65536, 131072, 2000000000};   // (also rates that do not fit 16 bits, and one that is refused: nothing may change then)
            p.add(where, "tb", {rmod(), rates[r.below(camp == "C18" ? 10 : 9)], (long)r.below(12)});
            break;
        }
        case CTX: {
            int k = (int)r.below(20);
            if (in_cb) {
                if (k < 9) p.add(where, "ctx_quit", {(long)r.below(6)});
                else if (k < 11) p.add(where, "ctx_misc", {(long)r.below(5)});
                else if (k < 13) p.add(where, tasks_in_program && camp != "C04" ? "ctx_misc" : "ctx_dereg");   // avoid(task thread vs module stop): deregistering the context stops its modules
                else if (k < 14) p.add(where, "ctx_reg", {(long)r.below(2)});
                else if (k < 16) p.add(where, "ctx_tick", {(long)r.below(6)});
                else if (k < 17) p.add(where, "ctx_finalize");
                else p.add(where, "ctx_quit", {(long)r.below(256)});
            } else {
                if (k < 5) p.add(where, tasks_in_program && camp != "C04" ? "ctx_misc" : "ctx_dereg");
                else if (k < 9) p.add(where, "ctx_reg", {(long)r.below(2)});
                else if (k < 11) p.add(where, "ctx_quit", {(long)r.below(6)});
                else if (k < 13) p.add(where, "ctx_finalize");
                else if (k < 16) p.add(where, "ctx_tick", {(long)r.below(6)});
                else p.add(where, "ctx_misc", {(long)r.below(5)});
            }
            break;
        }
        case REF: {
            int k = (int)r.below(10);
            if (k < 3) p.add(where, "ref", {rmod()});
            else if (k < 6) p.add(where, "unref", {rmod()});
            else if (in_cb && k < 8) p.add(where, "evt_ref", {rmod(), (long)r.below(4)});
            else if (k < 9) p.add(where, "evt_check", {rmod(), (long)r.below(6)});
            else p.add(where, "evt_unref", {rmod(), (long)r.below(6)});
            break;
        }
        case ERRNO: {
            static const long errs[] = {EAGAIN, EINTR, ENOENT, EBADF, EINVAL, ERANGE, ENOMEM, EEXIST, EPERM, 0};
            p.add(where, "errno", {errs[r.below(10)]});
            break;
        }
        case QUERY: p.add(where, "query", {rmod(), (long)r.below(4)}); break;
        case SETEVAL: p.add(where, "seteval", {rmod(), (long)r.below(2)}); break;
        default: break;
        }
    }
};

} // namespace

Program gen_core(const std::string &campaign, uint64_t seed, bool thorough) {
    Gen g;
    g.r = sim::fork_rng(seed, "gen");
    g.pf = profile_for(campaign);
    g.thorough = thorough;
    g.camp = campaign;
    sim::Rng &r = g.r;
    Program &p = g.p;
    p.set("property", campaign);
    p.set("engine", "simcore");
    p.set("campaign", campaign);
    p.set("seed", (long)seed);
    // simulator knobs (swarm)
    static const long costs[] = {0, 0, 100, 10000, 1000000};
    static const long lates[] = {0, 0, 1000, 1000000};
    p.set("sched", (long)(r.chance(0.5) ? sim::S_RTB : r.chance(0.5) ? sim::S_RANDOM : sim::S_PCT));
    p.set("cost_ns", g.pf.cost ? costs[r.below(5)] : 0);
    p.set("late_ns", g.pf.late ? lates[r.below(4)] : 0);
    p.setd("subset_p", g.pf.subset && r.chance(0.35) ? (r.chance(0.5) ? 0.2 : 0.6) : 0.0);
    p.setd("eintr_p", g.pf.eintr && r.chance(0.25) ? (r.chance(0.5) ? 0.05 : 0.3) : 0.0);
    p.set("max_waits", (long)r.range(12, thorough ? 160 : 60));
    p.set("teardown", (long)r.below(2));
    p.set("keeprefs", r.chance(campaign == "C04" || campaign == "C20" ? 0.5 : campaign == "C02" ? 0.7 : 1.0) ? 1 : 0);   // (without them a deregistered module lives only as long as the library needs it - e.g. as the sender of a message in flight)
    p.set("nufd", 3);
    // avoid(known finding C09: one descriptor cannot be polled for two modules of a context; two auto-closing owners would also be the
    // program's own double close): every module registers private descriptors only
    p.set("fdpermod", 1);
    if (campaign == "C20") p.set("filefds", r.chance(0.5) ? 1 : 0);
    if (campaign == "C09") p.set("filefds", r.chance(0.3) ? 1 : 0);   // (own draw: the C20 programs of a seed stay what they were)
    if (campaign == "C09" || campaign == "C20") p.set("reap", r.chance(0.5) ? 1 : 0);
    if (campaign == "C09" || campaign == "C20" || campaign == "C03") p.set("fdzero", r.chance(0.15) ? 1 : 0);   // descriptor number 0 as a key   // processes may be gone for good: their pid sources cannot be polled (refused registration / failing start)   // every third user descriptor is one epoll refuses
    g.tasks_in_program = (campaign == "C04" ? r.chance(0.6) : r.chance(0.3)) && (g.pf.src_kinds & 32);   // (only where task sources can be generated at all)
    if (campaign == "C09" && r.chance(0.3)) { g.batching_mode = true; g.tasks_in_program = false; }
    if (campaign == "C02" && r.chance(0.4)) g.batching_mode = true;
    if (campaign == "C02" && r.chance(0.15)) { g.churn_mode = true; g.pf.w_script[REG] = 16; g.pf.max_mods = 7; }
    g.full_bursts = thorough ? r.chance(0.6) : r.chance(0.25);
    p.set("tasks", g.tasks_in_program ? 1 : 0);
    bool dispatch_mode = r.chance(0.4);
    p.set("mode", dispatch_mode ? "dispatch" : "blocking");

    p.add("D", "ctx_reg", {campaign == "C07" || campaign == "C04" || campaign == "C20" ? (long)r.below(8) : (long)r.below(2)});
    int nm = (int)r.range(g.churn_mode ? 3 : 1, thorough ? g.pf.max_mods + 1 : g.pf.max_mods);
    for (int i = 0; i < nm; i++) g.gen_op("D", REG, false);
    // setup phase
    int nsetup = (int)r.range(0, thorough ? 14 : 8);
    auto driver_op = [&]() {
        int c = r.weighted(g.pf.w_driver, NCAT);
        g.gen_op("D", (Cat)c, false);
    };
    if (p.get("reap", 0) && r.chance(0.6)) p.add("D", "env_at", {0, 2, (long)r.below(4), 2});   // one of the processes is gone before anything watches it
    // some modules started explicitly, the rest left to the evaluation pass
    for (int i = 0; i < nm; i++) if (r.chance(0.45)) p.add("D", "start", {(long)i});
    for (int i = 0; i < nsetup; i++) driver_op();
    // run phase
    int phases = (int)r.range(1, g.pf.multi_loop ? 3 : 1);
    for (int ph = 0; ph < phases; ph++) {
        if (!dispatch_mode) {
            // events for the blocking loop must be in place before it starts
            int nenv = (int)r.below(5);
            for (int i = 0; i < nenv; i++) g.gen_op("D", ENV, false);
            p.add("D", "loop");
        } else {
            int rounds = (int)r.range(2, thorough ? 12 : 7);
            for (int k = 0; k < rounds; k++) {
                p.add("D", "dispatch", {(long)r.range(1, 4), r.chance(0.8) ? 1 : 0});
                int nd = (int)r.below(4);
                for (int i = 0; i < nd; i++) driver_op();
                if (r.chance(0.15)) p.add("D", "advance", {(long)r.below(20000)});
            }
            if (g.churn_mode && r.chance(0.7)) p.add("D", "bcast", {g.rmod(), 0});
            if (r.chance(0.5)) { p.add("D", "ctx_quit", {(long)r.below(6)}); p.add("D", "dispatch", {2, 1}); }
        }
        int nbetween = (int)r.below(4);
        for (int i = 0; i < nbetween; i++) driver_op();
    }
    // callback scripts
    int total_slots = g.nmods;
    bool quit_somewhere = false;
    for (int s = 0; s < std::max(total_slots, nm); s++) {
        for (int cb = 0; cb < 4; cb++) {
            int invs = cb == CB_EVT ? (int)r.range(1, thorough ? 8 : 5) : (int)r.range(0, 2);
            for (int n = 0; n < invs; n++) {
                if (!r.chance(cb == CB_EVT ? 0.6 : 0.35)) continue;
                char where[48];
                snprintf(where, sizeof where, "m%d.%s.%d", s, CB_NAMES[cb], n);
                int nops = (int)r.range(1, 3);
                for (int i = 0; i < nops; i++) {
                    int c = r.weighted(g.pf.w_script, NCAT);
                    if ((c == STASH || c == REF) && cb != CB_EVT && c == STASH) c = LIFE;
                    g.gen_op(where, (Cat)c, true);
                    if (p.ops.back().name == "ctx_quit") quit_somewhere = true;
                }
                // (avoid(known finding: task thread vs module stop): a refusing start callback stops the module, not next to task sources outside C04)
                if (cb == CB_START && r.chance(0.2) && !(g.tasks_in_program && campaign != "C04")) p.add(where, "ret", {0});
            }
        }
    }
    if (!dispatch_mode && !quit_somewhere && r.chance(0.7)) {
        char where[48];
        snprintf(where, sizeof where, "m%d.evt.%d", (int)r.below(std::max(1, nm)), (int)r.below(3));
        if (g.churn_mode && r.chance(0.7)) p.add(where, "bcast", {g.rmod(), 0});
        p.add(where, "ctx_quit", {(long)r.below(6)});
    }
    return p;
}
