// Oracles, clause by clause from the property statements (DESIGN.md section 5). Only the oracle of the
// campaign's own property is active in a run; what a statement does not constrain is left unconstrained.
#include "core.h"

using sim::R;

static bool dereg_cause_on_stack(int slot) {
    if (frame_on_stack("dereg", slot) || frame_on_stack_any("ctx_dereg")) return true;
    // replacing registration of the same name
    for (auto &f : W->frames)
        if (!f.is_cb && f.name == "reg" && f.slot >= 0 && f.slot < (int)W->slots.size() && f.slot != slot && W->slots[f.slot].name == W->slots[slot].name) return true;
    // the context goes away with the loop (loop_stop -> m_ctx_deregister)
    return false;
}
static bool loop_frame_on_stack() { return frame_on_stack_any("loop") || frame_on_stack_any("dispatch"); }

static int running_count_mirror() {
    int n = 0;
    for (auto &s : W->slots) if (s.st == ST_RUNNING && s.ctx_gen == W->ctx_registrations) n++;
    return n;
}

// ------------------------------------------------------------------ state edges (C01 a)
void orc_state_edge(int slot, int from, int to, const char *where) {
    Slot &s = W->slots[slot];
    s.prev_st = from;
    s.st_boundary = W->boundary_id;
    if (to == ST_IDLE) s.idle_since_gseq = R->gseq;
    if (!on("C01")) return;
    oracle_eval("C01.edge");
    auto bad = [&](const char *sig, const char *why) {
        std::string stack;
        for (auto &f : W->frames) stack += (f.is_cb ? "cb:" : "api:") + f.name + "(" + std::to_string(f.slot) + ") ";
        VIOL("C01", sig, "module slot %d went %s -> %s at %s: %s; active frames: %s", slot, st_name(from), st_name(to), where, why, stack.c_str());
    };
    if (from == ST_NONE) {
        if (to != ST_IDLE && to != ST_ZOMBIE) bad("C01:registered-not-idle", "a freshly registered module must be IDLE");
        return;
    }
    if (from == ST_ZOMBIE) bad("C01:zombie-left", "ZOMBIE is final");
    if (to == ST_ZOMBIE) {
        if (!dereg_cause_on_stack(slot) && !loop_frame_on_stack()) bad("C01:edge-without-cause:zombie", "no deregistration in progress");
        return;
    }
    if (from == ST_IDLE && to == ST_RUNNING) {
        if (frame_on_stack("start", slot)) return;
        if (loop_frame_on_stack()) {
            if (s.has_eval && !s.last_eval_ret) bad("C01:started-against-eval", "evaluation callback returned false");
            return;
        }
        bad("C01:edge-without-cause:idle-running", "neither m_mod_start nor a looping context");
    }
    if (from == ST_STOPPED && to == ST_RUNNING) {
        if (!frame_on_stack("start", slot)) bad("C01:edge-without-cause:stopped-running", "no m_mod_start in progress");
        return;
    }
    if (from == ST_RUNNING && to == ST_PAUSED) {
        if (!frame_on_stack("pause", slot)) bad("C01:edge-without-cause:running-paused", "no m_mod_pause in progress");
        return;
    }
    if (from == ST_PAUSED && to == ST_RUNNING) {
        if (!frame_on_stack("resume", slot)) bad("C01:edge-without-cause:paused-running", "no m_mod_resume in progress");
        return;
    }
    if ((from == ST_RUNNING || from == ST_PAUSED) && to == ST_STOPPED) {
        if (frame_on_stack("stop", slot) || dereg_cause_on_stack(slot)) return;
        if (s.start_refused_pending) { s.start_refused_pending = false; return; }
        if (loop_frame_on_stack() && s.pills_pending > 0) { s.pill_effective_seen = true; return; }
        bad("C01:edge-without-cause:stopped", "no stop, deregistration, refusing start callback or poison pill");
    }
    if ((from == ST_IDLE || from == ST_STOPPED) && to == ST_STOPPED && dereg_cause_on_stack(slot)) return;   // transient inside deregistration: unconstrained
    if (from == ST_IDLE && to == ST_STOPPED && dereg_cause_on_stack(slot)) return;
    char sig[64];
    snprintf(sig, sizeof sig, "C01:illegal-edge:%s-%s", st_name(from), st_name(to));
    bad(sig, "not a documented edge");
}

// ------------------------------------------------------------------ api exit (C01 b, C07, C09, C15, C18 hooks)
static bool legal_state(const std::string &name, int st) {
    if (name == "start") return st == ST_IDLE || st == ST_STOPPED;
    if (name == "pause") return st == ST_RUNNING;
    if (name == "resume") return st == ST_PAUSED;
    if (name == "stop") return st == ST_RUNNING || st == ST_PAUSED;
    if (name == "dereg") return st != ST_ZOMBIE && st != ST_NONE;
    if (name == "pill") return st == ST_RUNNING;
    return true;
}
static int dest_state(const std::string &name) {
    if (name == "start") return ST_RUNNING;
    if (name == "pause") return ST_PAUSED;
    if (name == "resume") return ST_RUNNING;
    if (name == "stop") return ST_STOPPED;
    if (name == "dereg") return ST_ZOMBIE;
    return -1;
}

void orc_c07_api(const ApiRec &r, const Frame &f, const std::string &snap0, const std::string &snap1);
void orc_c09_api(const ApiRec &r, const Frame &f, const std::string &snap0, const std::string &snap1);
void orc_c15_api(const ApiRec &r, const Frame &f, const std::string &snap0, const std::string &snap1);
void orc_c18_api(const ApiRec &r, const Frame &f, const std::string &snap0, const std::string &snap1);
void orc_tokens_api(const ApiRec &r, const Frame &f);
void orc_counts_checkpoint();

void orc_api_exit(const ApiRec &r, const Frame &f, const std::string &snap0, const std::string &snap1) {
    if (on("C01")) {
        const std::string &n = r.name;
        if (n == "start" || n == "pause" || n == "resume" || n == "stop" || n == "dereg" || n == "pill") {
            oracle_eval("C01.call-legality");
            bool reentrant = false;
            for (auto &fr : W->frames) if (!fr.is_cb && fr.slot == r.slot && (fr.name == "start" || fr.name == "stop" || fr.name == "dereg" || fr.name == "pause" || fr.name == "resume")) reentrant = true;
            for (auto &fr : W->frames) if (fr.is_cb && fr.slot == r.slot && fr.cb != CB_EVT) reentrant = true;
            if (!legal_state(n, r.st_before)) {
                char sig[96];
                if (r.rc >= 0) {
                    snprintf(sig, sizeof sig, "C01:illegal-call-accepted:%s:%s", n.c_str(), st_name(r.st_before));
                    VIOL("C01", sig, "%s on module slot %d in state %s returned %d", n.c_str(), r.slot, st_name(r.st_before), r.rc);
                }
                if (f.nested) {
                    snprintf(sig, sizeof sig, "C01:illegal-call-ran-callback:%s:%s", n.c_str(), st_name(r.st_before));
                    VIOL("C01", sig, "%s on module slot %d in state %s invoked %d callback(s)", n.c_str(), r.slot, st_name(r.st_before), f.nested);
                }
                if (snap0 != snap1) {
                    snprintf(sig, sizeof sig, "C01:illegal-call-had-effect:%s:%s", n.c_str(), st_name(r.st_before));
                    VIOL("C01", sig, "%s on module slot %d in state %s changed the observable state: %s -> %s", n.c_str(), r.slot, st_name(r.st_before), snap0.c_str(), snap1.c_str());
                }
            } else if (n != "pill" && !reentrant && f.nested == 0) {
                // (when callbacks ran inside the call they may have changed the outcome, e.g. deregistered the module: unconstrained)
                if (r.rc != 0) {
                    char sig[96];
                    snprintf(sig, sizeof sig, "C01:legal-call-refused:%s:%s", n.c_str(), st_name(r.st_before));
                    VIOL("C01", sig, "%s on module slot %d in state %s returned %d", n.c_str(), r.slot, st_name(r.st_before), r.rc);
                }
                if (f.nested == 0 && r.st_after != dest_state(n)) {
                    char sig[96];
                    snprintf(sig, sizeof sig, "C01:wrong-destination:%s", n.c_str());
                    VIOL("C01", sig, "%s on module slot %d (%s) returned 0 but the module is %s", n.c_str(), r.slot, st_name(r.st_before), st_name(r.st_after));
                }
            }
        }
        if (W->frames.empty()) orc_counts_checkpoint();
    }
    if (on("C07")) orc_c07_api(r, f, snap0, snap1);
    if (on("C09")) orc_c09_api(r, f, snap0, snap1);
    if (on("C15")) orc_c15_api(r, f, snap0, snap1);
    if (on("C18")) orc_c18_api(r, f, snap0, snap1);
    if (on("C13") || on("C15") || on("C16") || on("C17") || on("C18")) orc_tokens_api(r, f);
}

// start/stop callback counts and running-module count, evaluated when no transition is in flight
void orc_counts_checkpoint() {
    if (!on("C01")) return;
    oracle_eval("C01.callback-pairing");
    for (auto &s : W->slots) {
        if (s.has_start && s.n_cb[CB_START] != s.enter_running_from_rest)
            VIOL("C01", s.n_cb[CB_START] > s.enter_running_from_rest ? "C01:on_start-extra" : "C01:on_start-missing",
                 "module slot %d entered RUNNING from IDLE/STOPPED %d time(s) but its start callback ran %d time(s)", s.idx, s.enter_running_from_rest, s.n_cb[CB_START]);
        if (s.has_stop && s.stops_paired != s.leave_active)
            VIOL("C01", "C01:on_stop-missing", "module slot %d left RUNNING/PAUSED for STOPPED %d time(s) but only %d of those ran the stop callback", s.idx, s.leave_active, s.stops_paired);
    }
    m_ctx_stats_t st;
    if (m_ctx_stats(&st) == 0) {
        oracle_eval("C01.running-count");
        int mine = running_count_mirror();
        if ((int)st.running_modules != mine)
            VIOL("C01", "C01:running-count", "context reports %zu running modules, %d modules are in RUNNING state", st.running_modules, mine);
    }
}

// ------------------------------------------------------------------ callbacks
void orc_cb_enter(int slot, int cb) {
    Slot &s = W->slots[slot];
    if (!on("C01")) return;
    oracle_eval("C01.callback-context");
    // innermost api frame
    const Frame *api = nullptr;
    for (int i = (int)W->frames.size() - 2; i >= 0; i--) if (!W->frames[i].is_cb) { api = &W->frames[i]; break; }
    if ((cb == CB_START || cb == CB_STOP) && api && api->slot == slot && (api->name == "pause" || api->name == "resume"))
        VIOL("C01", cb == CB_START ? "C01:on_start-in-pause-resume" : "C01:on_stop-in-pause-resume", "%s of module slot %d ran the %s callback", api->name.c_str(), slot, CB_NAMES[cb]);
    if (cb == CB_START) {
        if (s.st != ST_RUNNING) VIOL("C01", "C01:on_start-state", "start callback of module slot %d invoked while it is %s", slot, st_name(s.st));
        bool fresh = s.st_boundary == W->boundary_id && (s.prev_st == ST_IDLE || s.prev_st == ST_STOPPED);
        if (!fresh) VIOL("C01", "C01:on_start-without-transition", "start callback of module slot %d ran without an entry into RUNNING from IDLE/STOPPED", slot);
    }
    if (cb == CB_STOP) {
        bool fresh = s.st_boundary == W->boundary_id && (s.prev_st == ST_RUNNING || s.prev_st == ST_PAUSED) && s.st == ST_STOPPED;
        if (fresh) s.stops_paired++;
        else if (!dereg_cause_on_stack(slot))
            VIOL("C01", "C01:on_stop-without-transition", "stop callback of module slot %d ran (state %s, before %s) without the module being stopped or deregistered", slot, st_name(s.st), st_name(s.prev_st));
        else if (s.prev_st == ST_RUNNING || s.prev_st == ST_PAUSED || s.st == ST_RUNNING || s.st == ST_PAUSED) {
            // deregistration of an active module: the transition must have been seen at this very boundary
            if (s.st != ST_STOPPED) VIOL("C01", "C01:on_stop-state", "stop callback of module slot %d invoked while it is %s", slot, st_name(s.st));
        }
    }
}

void orc_cb_exit(int slot, int cb) {
    (void)slot; (void)cb;
}

// ------------------------------------------------------------------ deliveries
void orc_c02_delivery(Delivery &d);
void orc_c03_delivery(Delivery &d);
void orc_c08_delivery(Delivery &d);
void orc_c13_delivery(Delivery &d);
void orc_c16_delivery(Delivery &d);
void orc_c17_delivery(Delivery &d);
void orc_c19_delivery(Delivery &d);

void orc_delivery(Delivery &d) {
    if (d.evts.size() > 1) R->ctr.probe("handler_got_multiple_events");
    if (on("C01")) {
        oracle_eval("C01.handler-only-running");
        if (d.state_at_entry != ST_RUNNING) {
            char sig[64];
            snprintf(sig, sizeof sig, "C01:handler-while-%s", st_name(d.state_at_entry));
            VIOL("C01", sig, "event handler of module slot %d invoked while the module is %s", d.slot, st_name(d.state_at_entry));
        }
    }
    if (on("C02")) orc_c02_delivery(d);
    if (on("C03")) orc_c03_delivery(d);
    if (on("C08")) orc_c08_delivery(d);
    if (on("C13")) orc_c13_delivery(d);
    if (on("C16")) orc_c16_delivery(d);
    if (on("C17")) orc_c17_delivery(d);
    if (on("C19")) orc_c19_delivery(d);
    if (on("C15")) orc_c15_delivery(d);
    // a one-shot source (incl. tasks and thresholds) is gone once it fired: mirrors and the C09 model follow
    if (!d.in_unstash)
        for (auto &e : d.evts) {
            if (e.type == M_SRC_TYPE_PS || e.type < 0 || e.type >= M_SRC_TYPE_END) continue;
            Slot &s = W->slots[d.slot];
            for (size_t i = 0; i < s.srcs.size(); i++) {
                SrcM &x = s.srcs[i];
                if (x.type != e.type || x.ud != e.ud || !x.oneshot) continue;
                SrcM copy = x;
                copy.removed_gseq = R->gseq;
                s.c09_model.erase(std::make_tuple(x.type, x.k1, x.type == M_SRC_TYPE_TASK ? 0L : x.k2));
                for (auto &ar : W->autoclose_regs) if (ar.slot == s.idx && ar.ud == x.ud) ar.removed = true;
                s.srcs.erase(s.srcs.begin() + i);
                s.recent_srcs.push_back(copy);
                s.oneshot_fired.push_back(copy.ud);
                break;
            }
        }
    // which descriptor sources delivered (arrival-vs-delivery oracle of C03)
    for (auto &e : d.evts)
        if (e.type == M_SRC_TYPE_FD) {
            Slot &s = W->slots[d.slot];
            for (auto &x : s.srcs) if (x.type == M_SRC_TYPE_FD && x.ud == e.ud) { x.delivered_gseq = R->gseq; x.missed_polls = 0; }
        }
    // a one-shot subscription is gone once it delivered
    for (auto &e : d.evts) {
        if (e.type != M_SRC_TYPE_PS || d.in_unstash || !e.ud) continue;   // (a system notification consumes a matching one-shot subscription like any message)
        Slot &s = W->slots[d.slot];
        for (auto it = s.subs.begin(); it != s.subs.end(); ++it)
            if (it->second.ud == e.ud && (it->second.flags & M_SRC_ONESHOT)) {
                if (it->second.re_ok) regfree(&it->second.re);
                s.oneshot_fired.push_back(e.ud);
                s.c09_model.erase(std::make_tuple((int)M_SRC_TYPE_PS, (long)(sim::hash_str(it->second.topic.c_str()) & 0x7fffffffffffLL), 0L));
                s.subs.erase(it);
                break;
            }
    }
    // bookkeeping shared by several oracles: which (send, recipient) pairs were delivered
    if (!d.in_unstash)
        for (auto &e : d.evts)
            if (e.type == M_SRC_TYPE_PS && !e.system && e.send_id >= 0) {
                W->sends[e.send_id].delivered[d.slot]++;
                if (W->slots[d.slot].pending > 0) W->slots[d.slot].pending--;
            }
}

void orc_c02_send(SendRec &s);
void orc_send(SendRec &s) {
    if (on("C02")) orc_c02_send(s);
}

// ------------------------------------------------------------------ quiescent point
void orc_c03_quiescent();
void orc_c13_quiescent();
void orc_quiescent() {
    if (on("C01")) {
        orc_counts_checkpoint();
        bool pass_happened = W->loop_start_pending_eval || R->k.batches.size() > W->batches_at_last_quiescent;
        uint64_t interval_start = W->last_quiescent_gseq;
        if (W->loop_start_pending_eval && !W->loops.empty()) interval_start = W->loops.back().start_gseq;
        if (pass_happened && W->reg_dereg_since_quiescent == 0 && W->quiescent_points > 0) {
            oracle_eval("C01.evaluation-pass");
            for (auto &s : W->slots) {
                if (s.st != ST_IDLE || s.ctx_gen != W->ctx_registrations) continue;
                if (s.idle_since_gseq >= interval_start) continue;
                if (s.has_eval && (!s.eval_flag || s.eval_changed_gseq >= interval_start)) continue;
                // errors of the poll itself suppress the pass
                VIOL("C01", "C01:idle-not-started", "module slot %d (%s evaluation callback) stayed IDLE over a complete evaluation pass", s.idx, s.has_eval ? "true-returning" : "no");
            }
        }
    }
    if (on("C03")) orc_c03_quiescent();
    if (on("C13")) orc_c13_quiescent();
}

// ------------------------------------------------------------------ loop end / run end
void orc_c02_loop_end(LoopRun &lr);
void orc_c03_loop_end(LoopRun &lr);
void orc_c08_loop_end(LoopRun &lr);
void orc_c19_loop_end(LoopRun &lr);
void orc_loop_end(LoopRun &lr) {
    if (on("C02")) orc_c02_loop_end(lr);
    if (on("C03")) orc_c03_loop_end(lr);
    if (on("C08")) orc_c08_loop_end(lr);
    if (on("C13")) orc_c13_loop_end(lr);
    if (on("C19")) orc_c19_loop_end(lr);
}

void orc_c02_run_end();
void orc_c07_run_end();
void orc_c20_run_end();
void orc_c16_run_end();
void orc_c19_run_end();
void orc_run_end() {
    if (on("C01")) orc_counts_checkpoint();
    if (on("C02")) orc_c02_run_end();
    if (on("C04")) {
        oracle_eval("C04.conservation");
        if (R->k.sigpipe_count) VIOL("C04", "C04:sigpipe", "the library wrote to a pipe whose read end is closed (SIGPIPE) %d time(s)", R->k.sigpipe_count);
        // leftover pool threads keep their stacks etc. out of our allocator; only memhook allocations count
        if (R->a.outstanding() != 0) {
            auto live = R->a.live_blocks();
            size_t bytes = 0;
            for (auto &b : live) bytes += b.second.size;
            VIOL("C04", "C04:leak", "%zu allocation(s) (%zu bytes) still outstanding after the context was deregistered and every user reference dropped; first block: %zu bytes allocated at event %lu",
                 live.size(), bytes, live[0].second.size, (unsigned long)live[0].second.gseq);
        }
    }
    if (on("C04") || on("C02") || on("C09")) {
        oracle_eval("C04.regex-conservation");
        if (R->regex_live != 0) {
            char sig[64];
            snprintf(sig, sizeof sig, "%s:compiled-regex-%s", W->property.c_str(), R->regex_live > 0 ? "leaked" : "freed-twice");
            VIOL(W->property.c_str(), sig, "%ld compiled regular expression(s) of subscriptions %s when everything was torn down", R->regex_live > 0 ? R->regex_live : -R->regex_live,
                 R->regex_live > 0 ? "were never released (regcomp without regfree)" : "were released more often than compiled");
        }
    }
    if (on("C07")) orc_c07_run_end();
    if (on("C20")) orc_c20_run_end();
    if (on("C16")) orc_c16_run_end();
    if (on("C19")) orc_c19_run_end();
}
