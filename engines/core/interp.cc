// Program interpreter: executes driver ops and callback scripts against the real library, keeps the
// World mirror up to date from what is observable, and calls the oracle hooks at every boundary.
#include "core.h"
#include <fcntl.h>

using sim::R;
World *W = nullptr;

const uint64_t TMR_NS_POOL[] = {1, 1000, 1000000, 3000000, 5000000, 10000000, 20000000, 100000000, 1000000000ULL,
                                5000000000ULL, 60000000000ULL, 4294967296ULL + 1000000ULL, 8589934592ULL + 1000000ULL,
                                3ULL * 4294967296ULL + 3000000ULL, 2147483648ULL + 1000ULL, 1ULL << 40};
const int TMR_NS_POOL_N = sizeof(TMR_NS_POOL) / sizeof(*TMR_NS_POOL);
const char *const TOPIC_POOL[] = {"t0", "t1", "t2", "abc", "a.c", "t.*", "^t[01]$", "x", "bc", "t0t1",
                                   // literal topics that, read as a regular expression, do not match their own text (appended: stored replays keep their indices)
                                   "t[0]", "a$c"};
const int TOPIC_POOL_N = sizeof(TOPIC_POOL) / sizeof(*TOPIC_POOL);
static const char *const SYS_TOPICS[] = {M_PS_CTX_STARTED, M_PS_CTX_STOPPED, M_PS_CTX_TICK, M_PS_MOD_STARTED, M_PS_MOD_STOPPED, "LIBMODULE_.*"};
static const char *const BAD_TOPICS[] = {"[", "LIBMODULE_USER", "LIBMODULE_CTX_STARTED"};
const char *const PATH_POOL[] = {"/sim/a", "/sim/b", "/sim/dir", "/sim/a2"};
const int PATH_POOL_N = sizeof(PATH_POOL) / sizeof(*PATH_POOL);
const char *const NAME_POOL[] = {"alpha", "beta", "gamma", "delta", "eps", "zeta", "eta", "theta"};
const int NAME_POOL_N = sizeof(NAME_POOL) / sizeof(*NAME_POOL);

static char g_payload_cells[1 << 16];
static char g_ud_cells[1 << 16];
enum { TAG_PAYLOAD = 1, TAG_UD = 2, TAG_NAME = 3 };

static const char *topic_by_index(long i) {
    if (i >= 200) return BAD_TOPICS[(i - 200) % 3];
    if (i >= 100) return SYS_TOPICS[(i - 100) % 6];
    if (i < 0) i = -i;
    return TOPIC_POOL[i % TOPIC_POOL_N];
}

const char *st_name(int st) {
    switch (st) {
    case ST_NONE: return "NONE";
    case ST_IDLE: return "IDLE";
    case ST_RUNNING: return "RUNNING";
    case ST_PAUSED: return "PAUSED";
    case ST_STOPPED: return "STOPPED";
    case ST_ZOMBIE: return "ZOMBIE";
    }
    return "?";
}

bool on(const char *prop) { return W->property == prop; }

// ------------------------------------------------------------------ helpers
int slot_of(const m_mod_t *m) {
    auto it = W->mod2slot.find(m);
    return it == W->mod2slot.end() ? -1 : it->second;
}
int state_of(int slot) {
    if (slot < 0 || slot >= (int)W->slots.size()) return ST_NONE;
    Slot &s = W->slots[slot];
    m_mod_t *h = s.handle();
    if (!h) return s.st == ST_NONE ? ST_NONE : s.st;
    return (int)m_mod_state(h);
}
Frame *cur_api_frame() {
    for (int i = (int)W->frames.size() - 1; i >= 0; i--) if (!W->frames[i].is_cb) return &W->frames[i];
    return nullptr;
}
bool frame_on_stack(const char *name, int slot) {
    for (auto &f : W->frames) if (!f.is_cb && f.slot == slot && f.name == name) return true;
    return false;
}
// the module is in the middle of leaving its context: its own deregistration is on the call stack, or it is being replaced (its stop
// callback runs inside the registration of a namesake). The library has already taken it out of the context's module table.
bool ctx_member(const Slot &s) {
    return s.ctx_gen == W->ctx_registrations && s.st != ST_NONE && !(s.st == ST_ZOMBIE && s.dereg_asked) && !leaving(s.idx);
}
bool leaving(int slot) {
    if (frame_on_stack("dereg", slot)) return true;
    for (size_t i = 0; i < W->frames.size(); i++) {
        const Frame &a = W->frames[i];
        if (a.is_cb || a.name != "reg" || a.slot < 0 || a.slot == slot || W->slots[a.slot].name != W->slots[slot].name) continue;
        for (size_t j = i + 1; j < W->frames.size(); j++) if (W->frames[j].is_cb && W->frames[j].cb == CB_STOP && W->frames[j].slot == slot) return true;
    }
    return false;
}
bool frame_on_stack_any(const char *name) {
    for (auto &f : W->frames) if (!f.is_cb && f.name == name) return true;
    return false;
}
bool cb_on_stack(int cb, int slot) {
    for (auto &f : W->frames) if (f.is_cb && f.cb == cb && f.slot == slot) return true;
    return false;
}
static bool in_any_cb() {
    for (auto &f : W->frames) if (f.is_cb) return true;
    return false;
}

// is the context of this thread looping? (m_ctx_stats succeeds only while LOOPING)
bool ctx_is_looping_probe(bool *known) {
    m_ctx_stats_t st;
    int rc = m_ctx_stats(&st);
    if (known) *known = (rc == 0 || rc == -EINVAL);
    return rc == 0;
}

// final-flush phase: inside the loop/dispatch call, the loop run not yet over, but the context no longer LOOPING
bool flush_phase_now() {
    if (!(frame_on_stack_any("loop") || frame_on_stack_any("dispatch"))) return false;
    if (W->loops.empty() || W->loops.back().ended) return false;
    bool known;
    bool looping = ctx_is_looping_probe(&known);
    return known && !looping;
}

uint64_t ud_new(bool autofree, const void **ptr_out) {
    uint64_t id = W->next_ud++;
    const void *p;
    if (autofree) {
        R->a.cur_tag = TAG_UD;
        p = sk_malloc(8);
        R->a.cur_tag = 0;
        memcpy((void *)p, &id, 8);
    } else {
        p = &g_ud_cells[id % sizeof(g_ud_cells)];
    }
    W->udptr2id[p] = id;
    *ptr_out = p;
    return id;
}
uint64_t ud_of(const void *p) {
    if (!p) return 0;
    auto it = W->udptr2id.find(p);
    return it == W->udptr2id.end() ? ~0ULL : it->second;
}

// observable snapshot: used to decide "the call changed nothing"
std::string snapshot() {
    std::string s;
    char b[96];
    for (auto &sl : W->slots) {
        m_mod_t *h = sl.handle();
        if (!h) { s += "-;"; continue; }
        long len = (long)m_mod_src_len(h, M_SRC_TYPE_END);
        snprintf(b, sizeof b, "%d:%ld;", (int)m_mod_state(h), len);
        s += b;
    }
    bool known;
    bool looping = ctx_is_looping_probe(&known);
    snprintf(b, sizeof b, "|ctx:%ld:%d:%d|fd:%zu|ep:", (long)m_ctx_len(), known, looping, R->k.open_count(sim::OWN_LIB));   // (user descriptors come and go with the environment)
    s += b;
    size_t regs = 0, bytes = 0;
    for (auto &e : R->k.fds) {
        // only what the library owns: the environment may write to user descriptors at any time
        if (!e.file || e.owner != sim::OWN_LIB) continue;
        if (e.file->kind == sim::F_EPOLL) regs += e.file->regs.size();
        if (e.file->kind == sim::F_PIPE_R) bytes += e.file->pipe->buf.size();
    }
    // (a task thread running in the background allocates/frees on its own schedule)
    snprintf(b, sizeof b, "%zu|pipe:%zu|alloc:%zu", regs, bytes, sim::all_others_done() ? R->a.outstanding() : (size_t)0);
    s += b;
    return s;
}

static void clear_mirrors(Slot &s) {
    for (auto &kv : s.subs) if (kv.second.re_ok) regfree(&kv.second.re);
    s.subs.clear();
    s.sub_history.clear();
    for (auto &x : s.srcs) { x.removed_gseq = R->gseq; s.recent_srcs.push_back(x); }
    s.srcs.clear();
    s.hstack.clear();
    s.stash.clear();
    s.batch_size = 0;
    s.batch_timeout = 0;
    s.tb_rate = 0;
    s.tb_burst = 0;
    s.c09_model.clear();
    for (auto &ar : W->autoclose_regs) if (ar.slot == s.idx) ar.removed = true;
}

void sample_states(const char *where) {
    W->boundary_id++;
    for (auto &s : W->slots) {
        m_mod_t *h = s.handle();
        // no reference left to ask through: the module was deregistered with the program's last reference (it is gone, or a ZOMBIE kept by the library)
        if (!h && !(s.raw && s.st != ST_NONE && s.st != ST_ZOMBIE)) continue;
        int st = h ? (int)m_mod_state(h) : ST_ZOMBIE;
        if (s.start_refused_due) {
            s.start_refused_due = false;
            if (on("C01") && (st == ST_RUNNING || st == ST_PAUSED)) {
                oracle_eval("C01.refused-start-stops");
                VIOL("C01", st == ST_PAUSED ? "C01:refused-start-not-stopped:paused" : "C01:refused-start-not-stopped", "the start callback of module slot %d returned false while the module was %s; it is still %s afterwards instead of STOPPED", s.idx, st_name(st), st_name(st));
            }
        }
        if (st != s.st) {
            int old = s.st;
            s.st = st;
            s.st_gseq = R->gseq;
            sim::tr("state", s.idx, old, st);
            orc_state_edge(s.idx, old, st, where);
            orc_c08_edge(s.idx, old, st);
            orc_c19_edge(s.idx, old, st);
            if (st == ST_RUNNING) { s.batch_timer_armed_at = R->now; s.batch_timer_exact = R->cfg.cost_ns == 0; }   // sources are (re)armed on entering RUNNING
            if (st == ST_STOPPED || st == ST_ZOMBIE) {
                clear_mirrors(s);
                // messages not yet delivered to this module are discarded
                for (auto &sd : W->sends)
                    for (int e : sd.eligible) if (e == s.idx && !sd.delivered.count(e)) sd.dead.insert(e);
                if (s.pills_pending && (flush_phase_now() || cb_on_stack(CB_EVT, s.idx))) {
                    // (also: the handler running now may be the hand-over of batched events that precedes a pill already read from the
                    // mailbox - the pill then still stops the module once the handler returns, even if the handler restarted it)
                    // the final flush walks a list of messages it has already taken out of the mailbox: a pill in that list is still
                    // honoured if the module is stopped and restarted by an earlier message of the same list (unconstrained phase)
                    s.pill_wildcard = true;
                } else {
                    s.pills_pending = 0;
                    s.pill_wildcard = false;
                }
                s.pending = 0;
                s.pending_exact = true;
            }
            if ((old == ST_IDLE || old == ST_STOPPED) && st == ST_RUNNING) s.enter_running_from_rest++;
            if ((old == ST_RUNNING || old == ST_PAUSED) && st == ST_STOPPED) s.leave_active++;
        }
        if (st != ST_RUNNING) s.last_non_running_gseq = R->gseq;
    }
}

// ------------------------------------------------------------------ api scope
struct ApiScope {
    std::string snap0;
    int slot;
    int st_before;
    bool want_snap;
    int actor = -1;
    // C18: the activity statistics of the module that pays for the call, as m_mod_stats reports them ("refused calls have no effect")
    bool stats0_ok = false;
    uint64_t stats0_now = 0;
    m_mod_stats_t stats0;
    ApiScope(const char *name, int slot_) : slot(slot_) {
        sample_states("api-enter");
        st_before = state_of(slot);
        want_snap = on("C01") || on("C07") || on("C09") || on("C14") || on("C15") || on("C18");
        if (want_snap) snap0 = snapshot();
        if (on("C07") && !strcmp(name, "ctx_dereg")) {
            bool known;
            (void)known;
            W->c07_looping_at_entry = W->ctx_looping;   // model: looping until the loop call / stopping dispatch call has returned
            W->c07_active_before.clear();
            W->c07_edges_before.clear();
            for (auto &sl : W->slots) if (sl.st == ST_RUNNING || sl.st == ST_PAUSED) { W->c07_active_before[sl.idx] = sl.n_cb[CB_STOP]; W->c07_edges_before[sl.idx] = sl.leave_active; }
        }
        if (on("C15")) {
            bool known15;
            W->c15_looping_at_entry = ctx_is_looping_probe(&known15);   // LOOPING proper (during the final flush the statement is silent)
            // the start-up pass of a loop run (evaluation / start callbacks before the first poll) is part of the loop as well, whatever the library's own flag says
            // (recognised by its callbacks: the outermost one is an evaluation or start callback, and no event handler has run yet in this loop run)
            if (W->ctx_looping && W->loop_start_pending_eval && !W->loops.empty() && !W->loops.back().ended && W->loops.back().evt_cbs == 0 && (frame_on_stack_any("loop") || frame_on_stack_any("dispatch")))
                for (auto &fr : W->frames) if (fr.is_cb) { if (fr.cb == CB_EVAL || fr.cb == CB_START) W->c15_looping_at_entry = true; break; }
            W->c15_nested_cb_returned = false;
            // did a nested callback already run and return inside the innermost executing callback?
            for (int i = (int)W->frames.size() - 1; i >= 0; i--) if (W->frames[i].is_cb) { W->c15_nested_cb_returned = W->frames[i].nested > 0; break; }
        }
        actor = W->next_actor;
        W->next_actor = -1;
        if (on("C18")) {
            int payer = actor >= 0 ? actor : slot;
            m_mod_t *h = payer >= 0 && payer < (int)W->slots.size() ? W->slots[payer].handle() : NULL;
            stats0_now = R->now;
            if (h && W->slots[payer].tb_rate) stats0_ok = m_mod_stats(h, &stats0) == 0 && R->now == stats0_now;
        }
        Frame f;
        f.actor = actor;
        f.had_ctx_at_entry = W->has_ctx;
        f.ctx_gen_at_entry = W->ctx_registrations;
        f.name = name;
        f.slot = slot;
        f.gseq = R->gseq;
        W->frames.push_back(f);
    }
    int done(int rc) {
        sample_states("api-exit");
        Frame f = W->frames.back();
        W->frames.pop_back();
        ApiRec r;
        r.actor = actor;
        r.name = f.name; r.slot = slot; r.rc = rc; r.st_before = st_before; r.st_after = state_of(slot); r.gseq = R->gseq; r.in_cb = in_any_cb();
        std::string snap1 = (want_snap && rc != 0) ? snapshot() : std::string();
        if (stats0_ok && rc == -EAGAIN && !f.nested) {
            int payer = actor >= 0 ? actor : slot;
            m_mod_t *h = W->slots[payer].handle();
            m_mod_stats_t st1;
            // same simulated instant before and after (no time passed inside the refused call): what the module reports about its own
            // activity must be what it reported before the call
            if (h && m_mod_stats(h, &st1) == 0 && R->now == stats0_now) {
                oracle_eval("C18.refusal-stats");
                if (st1.inactive_ms != stats0.inactive_ms || memcmp(&st1.activity_freq, &stats0.activity_freq, sizeof(double)) || st1.sent_msgs != stats0.sent_msgs || st1.recv_msgs != stats0.recv_msgs)
                    VIOL("C18", "C18:refused-call-counted-as-activity", "%s by module slot %d was refused with -EAGAIN but changed the module's activity statistics: inactive %lu -> %lu ms, frequency %g -> %g, sent %lu -> %lu",
                         f.name.c_str(), payer, (unsigned long)stats0.inactive_ms, (unsigned long)st1.inactive_ms, stats0.activity_freq, st1.activity_freq, (unsigned long)stats0.sent_msgs, (unsigned long)st1.sent_msgs);
            }
        }
        if (W->apis.size() < 100000) W->apis.push_back(r);
        orc_api_exit(r, f, snap0, snap1);
        return rc;
    }
};

// ------------------------------------------------------------------ callbacks
static std::vector<int> g_start_ret;
static int g_unstash_depth = 0;

static void run_script(int slot, int cb, int n) {
    char key[64];
    snprintf(key, sizeof key, "m%d.%s.%d", slot, CB_NAMES[cb], n);
    auto it = W->scripts.find(key);
    if (it == W->scripts.end()) return;
    for (const Op *op : it->second) {
        for (auto &f : W->frames) f.script_ops++;
        exec_op(*op, true, slot);
    }
}

static int cb_enter(m_mod_t *self, int cb) {
    int slot = slot_of(self);
    if (slot < 0) return -1;
    for (auto &f : W->frames) f.nested++;   // api frames: a callback ran inside; callback frames: a nested callback ran inside
    Frame f;
    f.is_cb = true;
    f.cb = cb;
    f.slot = slot;
    f.name = CB_NAMES[cb];
    f.gseq = R->gseq;
    W->frames.push_back(f);
    sim::tr(CB_NAMES[cb], slot, 1);
    sample_states("cb-enter");
    orc_cb_enter(slot, cb);
    return slot;
}
static void cb_exit(int slot, int cb) {
    orc_cb_exit(slot, cb);
    sample_states("cb-exit");
    sim::tr(CB_NAMES[cb], slot, 0);
    size_t depth = W->frames.size();
    W->frames.pop_back();
    for (auto &o : W->slots[slot].occ_started) if (o.end == UINT64_MAX && o.depth >= depth) o.end = R->gseq;
    for (auto &o : W->slots[slot].occ_stopped) if (o.end == UINT64_MAX && o.depth >= depth) o.end = R->gseq;
}

static bool cb_start(m_mod_t *self) {
    int slot = cb_enter(self, CB_START);
    if (slot < 0) return true;
    int n = W->slots[slot].n_cb[CB_START]++;
    g_start_ret.push_back(1);
    run_script(slot, CB_START, n);
    int ret = g_start_ret.back();
    g_start_ret.pop_back();
    if (!ret) W->slots[slot].start_refused_pending = true;
    if (!ret || state_of(slot) != ST_RUNNING) {
        // a start that is refused (or undone inside the callback) need not be announced (the statement does not say)
        for (auto &o : W->c19_obls) if (!o.done && o.sender == slot && o.topic == M_PS_MOD_STARTED && o.gseq >= W->frames.back().gseq - 2) o.done = true;
    }
    int st_at_return = state_of(slot);
    cb_exit(slot, CB_START);
    if (!ret && (st_at_return == ST_RUNNING || st_at_return == ST_PAUSED)) W->slots[slot].start_refused_due = true;
    return ret != 0;
}
static void cb_stop(m_mod_t *self) {
    int slot = cb_enter(self, CB_STOP);
    if (slot < 0) return;
    // stopping removes the token bucket (also when a STOPPED/IDLE module is "stopped" again by its deregistration)
    W->slots[slot].tb_rate = 0;
    W->slots[slot].tb_burst = 0;
    int n = W->slots[slot].n_cb[CB_STOP]++;
    run_script(slot, CB_STOP, n);
    cb_exit(slot, CB_STOP);
}
static bool cb_eval(m_mod_t *self) {
    int slot = cb_enter(self, CB_EVAL);
    if (slot < 0) return true;
    int n = W->slots[slot].n_cb[CB_EVAL]++;
    run_script(slot, CB_EVAL, n);
    bool ret = W->slots[slot].eval_flag;
    W->slots[slot].last_eval_ret = ret;
    W->slots[slot].last_eval_gseq = R->gseq;
    cb_exit(slot, CB_EVAL);
    return ret;
}

static void observe(const m_evt_t *e, EvtObs &o) {
    o.raw = e;
    o.type = (int)e->type;
    o.userdata = e->userdata;
    o.ud = ud_of(e->userdata);
    o.ts = e->ts;
    switch (e->type) {
    case M_SRC_TYPE_PS: {
        const m_evt_ps_t *p = e->ps_evt;
        o.system = p->system;
        o.sender = p->sender;
        o.sender_slot = p->sender ? slot_of(p->sender) : -1;
        if (p->sender) {
            // the sender handed over is a module handle the recipient may use (name/state getters work on a deregistered one too)
            const char *snm = m_mod_name((const m_mod_t *)p->sender);
            if (o.sender_slot >= 0 && (!snm || W->slots[o.sender_slot].name != snm))
                VIOL(W->property.c_str(), "sender-handle-invalid", "the sender handed over with a message (slot %d, registered as %s) answers to the name %s", o.sender_slot, W->slots[o.sender_slot].name.c_str(), snm ? snm : "NULL");
        }
        o.topic = p->topic;
        if (p->topic) o.topic_s = p->topic;
        o.data = p->data;
        if (p->data) {
            auto it = W->payload2send.find(p->data);
            o.send_id = it == W->payload2send.end() ? -2 : it->second;
        }
        break;
    }
    case M_SRC_TYPE_FD: o.fd = e->fd_evt->fd; break;
    case M_SRC_TYPE_TMR: o.ns = e->tmr_evt->ns; break;
    case M_SRC_TYPE_SGN: o.signo = e->sgn_evt->signo; break;
    case M_SRC_TYPE_PATH: if (e->path_evt->path) o.path = e->path_evt->path; o.path_events = e->path_evt->events; break;
    case M_SRC_TYPE_PID: o.pid = e->pid_evt->pid; break;
    case M_SRC_TYPE_TASK: o.tid = e->task_evt->tid; o.retval = e->task_evt->retval; break;
    case M_SRC_TYPE_THRESH: o.thr_freq = e->thresh_evt->activity_freq; o.thr_inactive = e->thresh_evt->inactive_ms; break;
    default: break;
    }
}

static void handle_evt(m_mod_t *self, const m_queue_t *evts, int hidx) {
    int slot = cb_enter(self, CB_EVT);
    if (slot < 0) return;
    Slot &s = W->slots[slot];
    int n = s.n_cb[CB_EVT]++;
    if (!W->loops.empty() && !W->loops.back().ended) W->loops.back().evt_cbs++;
    W->deliveries.emplace_back();
    Delivery &d = W->deliveries.back();
    d.gseq = R->gseq;
    d.slot = slot;
    d.handler = hidx;
    d.state_at_entry = (int)m_mod_state(self);
    d.in_unstash = g_unstash_depth > 0;
    if (!(s.flags & M_MOD_DENY_CTX)) d.ctx_looping = ctx_is_looping_probe(&d.looping_known);
    d.loop_run = W->loops.empty() ? 0 : W->loops.back().id;
    std::vector<int> eof_fds;
    for (m_queue_itr_t *it = m_queue_itr_new(evts); it; m_queue_itr_next(&it)) {
        const m_evt_t *e = (const m_evt_t *)m_queue_itr_get_data(it);
        EvtObs o;
        observe(e, o);
        o.prio = evt_prio(s, o);
        if (on("C04") && o.userdata && R->a.is_freed(o.userdata))
            VIOL("C04", "C04:event-userdata-freed", "module slot %d is handed an event (type %d) whose auto-free user data has already been released", slot, o.type);
        d.evts.push_back(o);
        if (o.type == M_SRC_TYPE_FD && R->k.is_open(o.fd)) {
            // consume what the environment wrote so a level-triggered descriptor does not fire forever
            char buf[256];
            long got;
            while ((got = R->k.k_read(o.fd, buf, sizeof buf, sim::OWN_USER)) > 0) {}
            if (got == 0) eof_fds.push_back(o.fd);   // peer hung up: stop watching it (below)
        }
    }
    W->n_deliveries++;
    sim::tr("deliver", slot, hidx, (long)d.evts.size());
    orc_delivery(d);
    for (int fd : eof_fds)
        for (size_t k = 0; k < W->ufds.size(); k++)
            if (W->ufds[k].first == fd) {
                Op u; u.where = "D"; u.name = "unsrc_fd"; u.a = {(long)slot, (long)k, 0};
                exec_op(u, true, slot);
            }
    W->cur_delivery.push_back(&d);
    run_script(slot, CB_EVT, n);
    if (W->slots[slot].armed_dereg) {
        W->slots[slot].armed_dereg = false;
        Op u; u.where = "D"; u.name = "dereg"; u.a = {(long)slot};
        exec_op(u, true, slot);
    }
    W->cur_delivery.pop_back();
    cb_exit(slot, CB_EVT);
}
static void on_evt_0(m_mod_t *m, const m_queue_t *q) { handle_evt(m, q, 0); }
static void on_evt_1(m_mod_t *m, const m_queue_t *q) { handle_evt(m, q, 1); }
static void on_evt_2(m_mod_t *m, const m_queue_t *q) { handle_evt(m, q, 2); }
static void on_evt_3(m_mod_t *m, const m_queue_t *q) { handle_evt(m, q, 3); }
static const m_evt_cb HANDLERS[4] = {on_evt_0, on_evt_1, on_evt_2, on_evt_3};

// task bodies run on pool threads (simulated threads)
struct TaskParam { uint64_t dur_ns; int retval; };
static std::map<uint64_t, TaskParam> g_task_params;
static int task_fn(void *userptr) {
    uint64_t id = ud_of(userptr);
    TaskParam tp{1000, 0};
    auto it = g_task_params.find(id);
    if (it != g_task_params.end()) tp = it->second;
    sim::tr("task_begin", (long)id);
    if (tp.dur_ns) sim::sleep_ns(tp.dur_ns);
    sim::tr("task_end", (long)id);
    return tp.retval;
}

// ------------------------------------------------------------------ world init
static void make_ufd(int k) {
    if (W->prog.get("filefds", 0) && k % 3 == 2) {
        // a descriptor the poll back end refuses (regular file): registering it on a RUNNING module, or starting a module that has
        // it registered, fails and must be rolled back
        int fd = R->k.k_open_plain(sim::OWN_USER);
        if (k < (int)W->ufds.size()) W->ufds[k] = {fd, -1};
        else W->ufds.push_back({fd, -1});
        W->ufd_ids.resize(W->ufds.size(), 0);
        W->ufd_ids[k] = R->k.get(fd)->id;
        return;
    }
    int p[2];
    R->k.k_pipe(p, sim::OWN_USER);
    R->k.k_fcntl(p[0], F_SETFL, O_NONBLOCK, sim::OWN_USER);
    R->k.k_fcntl(p[1], F_SETFL, O_NONBLOCK, sim::OWN_USER);
    if (k < (int)W->ufds.size()) W->ufds[k] = {p[0], p[1]};
    else W->ufds.push_back({p[0], p[1]});
    W->ufd_ids.resize(W->ufds.size(), 0);
    W->ufd_ids[k] = R->k.get(p[0])->id;
}
// the descriptor of user slot k is still the one we opened (its number may have been closed by an auto-closing source and reused)
static bool ufd_valid(int k) {
    int fd = W->ufds[k].first;
    return R->k.is_open(fd) && R->k.fds[fd].owner == sim::OWN_USER && k < (int)W->ufd_ids.size() && R->k.get(fd)->id == W->ufd_ids[k];
}

void world_init(World &w, const Program &p) {
    w.prog = p;
    w.property = p.gets("property");
    w.campaign = p.gets("campaign");
    w.teardown_style = (int)p.get("teardown", 0);
    w.keep_refs = p.get("keeprefs", 1) != 0;
    int nufd = (int)p.get("nufd", 3);
    W = &w;
    if (p.get("fdzero", 0)) R->k.k_close(0, sim::OWN_USER);   // the program closed its standard input: descriptor number 0 is an ordinary number now (the first user descriptor gets it)
    for (int i = 0; i < nufd; i++) make_ufd(i);
    for (const Op &op : w.prog.ops)
        if (op.where != "D") w.scripts[op.where].push_back(&op);
    g_task_params.clear();
    g_start_ret.clear();
    g_unstash_depth = 0;
}

// ------------------------------------------------------------------ loop handling
static void quiescent_hook(bool real_poll = false);
static void loop_begin(bool blocking) {
    LoopRun lr;
    lr.id = W->loops.size() + 1;
    lr.blocking = blocking;
    lr.start_gseq = R->gseq;
    W->loops.push_back(lr);
    W->ctx_looping = true;
    W->loop_start_pending_eval = true;
    W->reg_dereg_since_quiescent = 0;   // only (de)registrations made during the start pass itself excuse a delay
    for (auto &sl : W->slots) sl.c19_stopped_rx_at_loop_start = sl.sys_received.count("1|-1") ? sl.sys_received["1|-1"] : 0;
    orc_c19_loop_edge(true);
}
static void loop_end(int rc) {
    if (W->loops.empty() || W->loops.back().ended) return;
    LoopRun &lr = W->loops.back();
    lr.ended = true;
    lr.rc = rc;
    lr.end_gseq = R->gseq;
    lr.poll_failure = R->k.poll_failure_injected;
    R->k.poll_failure_injected = false;
    if (W->loop_start_pending_eval) quiescent_hook();   // loop ended without ever polling: the start pass still happened
    else if (!lr.poll_failure && R->k.batches.size() > W->batches_at_last_quiescent) quiescent_hook();   // the pass after the last batch (e.g. the one whose handler quit the loop) is due as well
    W->ctx_looping = false;
    sim::tr("loop_end", rc);
    orc_c19_loop_edge(false);
    // messages for modules that are PAUSED when the loop ends are discarded
    // (sends made by handlers of the final flush itself come after the flush that would discard them: left unconstrained)
    for (auto &sd : W->sends)
        for (int e : sd.eligible)
            if (!sd.in_flush && !sd.delivered.count(e) && W->slots[e].st == ST_PAUSED) sd.dead.insert(e);
    // the discard happens at the module's own turn of the final flush; a module that was not RUNNING at some point after the
    // last poll may or may not have had its pending messages discarded: unconstrained from here on
    for (auto &sl : W->slots) {
        bool maybe = sl.st == ST_PAUSED || sl.last_non_running_gseq > W->last_real_poll_gseq;
        if (!maybe) continue;
        if (sl.pills_pending) sl.pill_wildcard = true;   // may or may not still be in the mailbox
        for (auto &o : W->c19_obls) if (o.recipient == sl.idx) o.done = true;
        if (sl.st == ST_PAUSED && sl.last_non_running_gseq <= W->last_real_poll_gseq) sl.pending = 0;   // PAUSED throughout the flush: discarded for sure
        else sl.pending_exact = false;
        for (auto &sd : W->sends)
            for (int e : sd.eligible)
                if (e == sl.idx && !sd.delivered.count(e) && !sd.dead.count(e) && (sl.st == ST_PAUSED || sl.last_non_running_gseq >= sd.gseq)) sd.unknown.insert(e);   // (RUNNING ever since the send: no grey zone for this message)
    }
    orc_loop_end(lr);
    // model: a non-persistent context left without modules is released when the loop returns
    if (W->has_ctx && !(W->ctx_flags & M_CTX_PERSIST)) {
        int left = 0;
        for (auto &o : W->slots) if (ctx_member(o)) left++;   // (a module whose deregistration is in progress has left the context already)
        if (left == 0) W->has_ctx = false;
    }
}

static int do_dispatch_once() {
    bool known0;
    bool l0 = ctx_is_looping_probe(&known0);
    ApiScope a("dispatch", -1);
    if (known0 && !l0) loop_begin(false);
    int rc = m_ctx_dispatch();
    rc = a.done(rc);
    bool known1;
    bool l1 = ctx_is_looping_probe(&known1);
    if (known0 && !l0 && !l1 && !W->loops.empty() && !W->loops.back().ended) {
        // loop_start failed or nothing to do: treat as not started
        W->loops.back().ended = true;
        W->ctx_looping = false;
    }
    if (known0 && !l0 && l1) quiescent_hook();   // the start pass is over: same checks as at the first poll
    if (l0 && !l1) loop_end(rc);
    sim::tr("dispatch", rc, l1);
    return rc;
}

static void do_loop_blocking() {
    bool known;
    bool l0 = ctx_is_looping_probe(&known);
    ApiScope a("loop", -1);
    if (known && !l0) loop_begin(true);
    int rc = m_ctx_loop();
    rc = a.done(rc);
    sim::tr("loop", rc);
    if (known && !l0) loop_end(rc);
}

// dispatch-mode emulation of a blocking loop (C03 equivalence clause)
static void do_loop_via_dispatch() {
    bool known;
    bool l0 = ctx_is_looping_probe(&known);
    if (!known || l0) { do_dispatch_once(); return; }
    do_dispatch_once();   // starts
    for (int guard = 0; guard < 4000; guard++) {
        bool k2;
        if (!ctx_is_looping_probe(&k2)) return;
        int rc = do_dispatch_once();
        if (!ctx_is_looping_probe(&k2)) return;
        if (rc == 0) {
            if (!sim::wait_kernel_event()) return;   // nothing can ever happen again: the blocking loop would hang here
        }
    }
}

// ------------------------------------------------------------------ ops
static int pick_slot(long v) {
    int n = (int)W->slots.size();
    if (n == 0) return -1;
    return (int)(((v % n) + n) % n);
}

static unsigned src_flags_from(long bits) {
    unsigned f = 0;
    if (bits & 1) f |= M_SRC_ONESHOT;
    if (bits & 2) f |= M_SRC_AUTOFREE;
    if (bits & 4) f |= M_SRC_DUP;
    if (bits & 8) f |= M_SRC_FD_AUTOCLOSE;
    if (bits & 16) f |= M_SRC_PRIO_LOW;
    if (bits & 32) f |= M_SRC_PRIO_HIGH;
    if (bits & 64) f |= M_SRC_PRIO_NORM;
    if (bits & 128) f |= M_SRC_TMR_ABSOLUTE;
    return f;
}

static SrcM *find_src(Slot &s, int type, long k1, long k2 = 0) {
    for (auto &x : s.srcs) if (x.type == type && x.k1 == k1 && x.k2 == k2) return &x;
    return nullptr;
}
static void erase_src(Slot &s, int type, long k1, long k2 = 0) {
    for (size_t i = 0; i < s.srcs.size(); i++)
        if (s.srcs[i].type == type && s.srcs[i].k1 == k1 && s.srcs[i].k2 == k2) {
            // a descriptor source registered with the DUP flag is keyed by the duplicate, which the user cannot name
            if (type == M_SRC_TYPE_FD && (s.srcs[i].flags & M_SRC_DUP)) continue;
            s.srcs[i].removed_gseq = R->gseq;
            for (auto &ar : W->autoclose_regs) if (ar.slot == s.idx && ar.ud == s.srcs[i].ud) ar.removed = true;
            s.recent_srcs.push_back(s.srcs[i]);
            s.srcs.erase(s.srcs.begin() + i);
            return;
        }
}

static void do_send(int kind, int from, int to, long topic_idx, bool autofree, int count);

// the module's context is there and neither is in the middle of being torn down: only then "a legal call succeeds" is asserted
static bool calm(int m) {
    return W->has_ctx && W->slots[m].ctx_gen == W->ctx_registrations && !frame_on_stack("dereg", m) && !frame_on_stack_any("ctx_dereg") && !frame_on_stack_any("reg");
}

int g_src_unpollable_pid = -1;
bool g_src_unpollable_fd = false;   // the descriptor of the src_fd call in progress is a regular file (epoll refuses it)
void exec_op(const Op &op, bool in_cb, int cb_slot) {
    const std::string &n = op.name;
    if (R->horizon_hit && n != "ctx_quit") { /* keep going: teardown still runs */ }
    // ---------------- context
    if (n == "ctx_reg") {
        unsigned fl = 0;
        if (op.arg(0) & 1) fl |= M_CTX_PERSIST;
        if (op.arg(0) & 2) fl |= M_CTX_NAME_DUP;
        const void *ud = nullptr;
        if (op.arg(0) & 4) { fl |= M_CTX_USERDATA_AUTOFREE; R->a.cur_tag = TAG_UD; ud = sk_malloc(8); R->a.cur_tag = 0; }
        ApiScope a("ctx_reg", -1);
        int rc = a.done(m_ctx_register("simctx", (m_ctx_flags)fl, ud));
        sim::tr("ctx_reg", fl, rc);
        if (rc == 0) { W->has_ctx = true; W->ctx_flags = fl; W->ctx_finalized = false; W->ctx_registrations++; W->ctx_tick_ns = 0; }
        else if (ud) sk_free((void *)ud);
        return;
    }
    if (n == "ctx_dereg") {
        std::vector<bool> asked0;
        for (auto &o : W->slots) { asked0.push_back(o.dereg_asked); if (o.ctx_gen == W->ctx_registrations) o.dereg_asked = true; }
        ApiScope a("ctx_dereg", -1);
        int rc = a.done(m_ctx_deregister());
        if (rc != 0) for (size_t i = 0; i < asked0.size(); i++) W->slots[i].dereg_asked = asked0[i];   // refused: nobody was asked to leave
        sim::tr("ctx_dereg", rc);
        if (rc == 0) { W->has_ctx = false; W->ctx_looping = false; }
        return;
    }
    if (n == "ctx_finalize") {
        ApiScope a("ctx_finalize", -1);
        int rc = a.done(m_ctx_finalize());
        if (rc == 0) { W->ctx_finalized = true; W->ctx_finalized_gseq = R->gseq; }
        sim::tr("ctx_finalize", rc);
        return;
    }
    if (n == "ctx_tick") {
        uint64_t ns = op.arg(0) <= 0 ? 0 : TMR_NS_POOL[op.arg(0) % TMR_NS_POOL_N];
        ApiScope a("ctx_tick", -1);
        int rc = a.done(m_ctx_set_tick(ns));
        if (rc == 0) {
            W->ctx_tick_ns = ns;
            W->ctx_tick_set_gseq = R->gseq;
            for (auto &sl : W->slots) sl.tick_times.clear();   // the spacing bound restarts with every (re)configuration
            if (ns && !W->c19_first_tick_gseq) W->c19_first_tick_gseq = R->gseq;
            if (ns) { W->c19_tick_ever = true; if (!W->c19_min_tick_ns || ns < W->c19_min_tick_ns) W->c19_min_tick_ns = ns; }
        }
        sim::tr("ctx_tick", (long)(ns / 1000), rc);
        return;
    }
    if (n == "ctx_quit") {
        ApiScope a("ctx_quit", -1);
        int code = (int)(op.arg(0) & 0xff);
        int rc = a.done(m_ctx_quit((uint8_t)code));
        sim::tr("ctx_quit", code, rc);
        if (rc == 0 && !W->loops.empty() && !W->loops.back().ended) { W->loops.back().quit_requested = true; W->loops.back().quit_code = code; W->loops.back().quit_gseq = R->gseq; }
        return;
    }
    if (n == "ctx_misc") {
        ApiScope a("ctx_misc", -1);
        int rc = 0;
        switch (op.arg(0) % 5) {
        case 0: { m_ctx_stats_t st; rc = m_ctx_stats(&st); break; }
        case 1: rc = (int)m_ctx_len(); break;
        case 2: rc = m_ctx_name() ? 1 : 0; break;
        case 3: rc = m_ctx_userdata() ? 1 : 0; break;
        case 4: rc = m_ctx_dump(); break;
        }
        W->c15_misc_null = ((op.arg(0) % 5 == 2 || op.arg(0) % 5 == 3) && rc == 0);   // name/userdata getters report "no context" as NULL
        a.done(rc < 0 ? rc : 0);
        sim::tr("ctx_misc", op.arg(0) % 5, rc);
        return;
    }
    if (n == "loop") {
        if (in_cb) return;
        if (W->dispatch_variant) do_loop_via_dispatch(); else do_loop_blocking();
        return;
    }
    if (n == "dispatch") {
        if (in_cb) return;
        long cnt = std::max(1L, std::min(200L, op.arg(0, 1)));
        for (long i = 0; i < cnt; i++) {
            int rc = do_dispatch_once();
            bool known;
            bool looping = ctx_is_looping_probe(&known);
            if (!looping) break;
            if (rc == 0 && op.arg(1, 1)) { if (!sim::wait_kernel_event()) break; }
        }
        return;
    }
    if (n == "advance") {
        if (in_cb) return;
        sim::sleep_ns((uint64_t)std::max(1L, op.arg(0)) * 1000ULL);
        return;
    }
    // ---------------- modules
    if (n == "reg") {
        if ((int)W->slots.size() >= 12) return;
        Slot s;
        s.idx = (int)W->slots.size();
        s.name_idx = (int)(op.arg(0) % NAME_POOL_N);
        s.name = NAME_POOL[s.name_idx];
        long fb = op.arg(1);
        unsigned fl = 0;
        if (fb & 1) fl |= M_MOD_NAME_DUP;
        if (fb & 2) fl |= M_MOD_ALLOW_REPLACE;
        if (fb & 4) fl |= M_MOD_PERSIST;
        if (fb & 8) fl |= M_MOD_USERDATA_AUTOFREE;
        if (fb & 16) fl |= M_MOD_DENY_CTX;
        if (fb & 32) fl |= M_MOD_DENY_PUB;
        if (fb & 64) fl |= M_MOD_DENY_SUB;
        s.flags = fl;
        long hk = op.arg(2);
        s.has_eval = hk & 1; s.has_start = hk & 2; s.has_stop = hk & 4;
        s.eval_flag = op.arg(3, 1) != 0;
        m_mod_hook_t hook;
        hook.on_eval = s.has_eval ? cb_eval : nullptr;
        hook.on_start = s.has_start ? cb_start : nullptr;
        hook.on_stop = s.has_stop ? cb_stop : nullptr;
        hook.on_evt = on_evt_0;
        const void *ud = nullptr;
        if (fl & M_MOD_USERDATA_AUTOFREE) s.userdata_id = ud_new(true, &ud);
        // with NAME_DUP hand over a temporary name
        char tmpname[32];
        const char *nm = s.name.c_str();
        if (fl & M_MOD_NAME_DUP) { snprintf(tmpname, sizeof tmpname, "%s", s.name.c_str()); nm = tmpname; }
        else nm = NAME_POOL[s.name_idx];
        s.ctx_gen = W->ctx_registrations;
        W->slots.push_back(s);
        int idx = (int)W->slots.size() - 1;
        W->reg_dereg_since_quiescent++;
        m_mod_t *h = nullptr;
        W->c15_name_holder = -1;
        for (auto &o : W->slots)
            if (o.idx != idx && o.name == W->slots[idx].name && o.ctx_gen == W->ctx_registrations && o.registered() && (o.flags & M_MOD_ALLOW_REPLACE)) o.dereg_asked = true;   // (replaced by this one)
        for (auto &o : W->slots)
            if (o.idx != idx && o.name == W->slots[idx].name && o.ctx_gen == W->ctx_registrations && o.st != ST_NONE && o.st != ST_ZOMBIE &&
                !frame_on_stack("dereg", o.idx) && !frame_on_stack_any("ctx_dereg") && !frame_on_stack_any("reg")) W->c15_name_holder = o.idx;   // (a module in the middle of its deregistration no longer holds its name)
        W->slots[idx].reg_gseq = R->gseq;
        ApiScope a("reg", idx);
        int rc = m_mod_register(nm, &h, &hook, (m_mod_flags)fl, ud);
        if (fl & M_MOD_NAME_DUP) memset(tmpname, 'Z', sizeof tmpname - 1);
        Slot &sl = W->slots[idx];
        if (rc == 0 && h) {
            sl.h = h;
            sl.raw = h;
            W->mod2slot[h] = idx;
            if (W->keep_refs) sl.keep = (m_mod_t *)m_mem_ref(h);
        } else if (ud && R->a.is_live(ud)) {
            sk_free((void *)ud);   // refused before the library took the user data over
        }
        a.done(rc);
        sim::tr("reg", idx, rc, fl);
        return;
    }
    int m = pick_slot(op.arg(0));
    if (n == "arm_dereg") { if (m >= 0) W->slots[m].armed_dereg = true; return; }
    if (n == "seteval") { if (m >= 0) { W->slots[m].eval_flag = op.arg(1) != 0; W->slots[m].eval_changed_gseq = R->gseq; } return; }
    if (n == "errno") { if (W->errno_ops) errno = (int)op.arg(0); sim::tr("set_errno", op.arg(0)); return; }
    if (n == "ret") { if (!g_start_ret.empty()) g_start_ret.back() = (int)op.arg(0); return; }
    if (n == "env" || n == "env_at") {
        long dt_us = n == "env_at" ? std::max(0L, op.arg(0)) : 0;
        size_t b = n == "env_at" ? 1 : 0;
        long kind = op.arg(b), x = op.arg(b + 1), y = op.arg(b + 2);
        auto act = [kind, x, y]() {
            switch (kind % 6) {
            case 5: {   // the peer of user descriptor x goes away
                if (W->ufds.empty()) break;
                int k = (int)(((x % (long)W->ufds.size()) + W->ufds.size()) % W->ufds.size());
                if (W->ufds[k].second >= 0 && R->k.is_open(W->ufds[k].second) && R->k.fds[W->ufds[k].second].owner == sim::OWN_USER) {
                    R->k.k_close(W->ufds[k].second, sim::OWN_USER);
                    W->ufds[k].second = -1;
                }
                break;
            }
            case 0: {
                if (W->ufds.empty()) break;
                int k = (int)(((x % (long)W->ufds.size()) + W->ufds.size()) % W->ufds.size());
                char buf[64];
                memset(buf, 'e', sizeof buf);
                long cnt = std::max(1L, std::min(64L, y));
                if (W->ufds[k].second >= 0 && R->k.is_open(W->ufds[k].second) && R->k.fds[W->ufds[k].second].owner == sim::OWN_USER) R->k.k_write(W->ufds[k].second, buf, (size_t)cnt, sim::OWN_USER);
                break;
            }
            case 1: R->k.env_raise_signal((int)(1 + (x % 30 + 30) % 30)); break;
            case 2:
                if (W->prog.get("reap", 0) && (y & 2)) R->k.env_pid_reap((int)(100 + (x % 8 + 8) % 8));   // gone for good: cannot be polled any more
                else R->k.env_pid_exit((int)(100 + (x % 8 + 8) % 8));
                break;
            case 3: R->k.env_touch(PATH_POOL[(x % PATH_POOL_N + PATH_POOL_N) % PATH_POOL_N], 0x2 /*IN_MODIFY*/ | 0x100 /*IN_CREATE*/, (y & 1) != 0); break;
            case 4: R->k.env_clock_step(x * 1000000L); break;
            }
        };
        if (dt_us == 0) act(); else sim::at_time(R->now + (uint64_t)dt_us * 1000ULL, act);
        return;
    }
    if (m < 0) return;
    Slot &s = W->slots[m];
    m_mod_t *h = s.handle();
    if (!h) return;
    if (n == "dereg") {
        W->reg_dereg_since_quiescent++;
        bool asked0 = s.dereg_asked;
        s.dereg_asked = true;
        ApiScope a("dereg", m);
        int rc;
        if (s.h) {
            rc = m_mod_deregister(&s.h);
        } else {
            m_mod_t *tmp = s.keep;
            rc = m_mod_deregister(&tmp);
            if (!tmp) s.keep = nullptr;   // library consumed the reference we passed
        }
        a.done(rc);
        if (rc != 0 && s.st != ST_ZOMBIE) s.dereg_asked = asked0;
        sim::tr("dereg", m, rc);
        if (rc == 0 && W->has_ctx && !(W->ctx_flags & M_CTX_PERSIST) && !W->ctx_looping && s.ctx_gen == W->ctx_registrations) {
            // model: an idle non-persistent context is released with its last module
            int left = 0;
            for (auto &o : W->slots) if (ctx_member(o)) left++;   // (a module whose deregistration is in progress has left the context already)
            bool in_ctx_dereg = frame_on_stack_any("ctx_dereg");
            if (left == 0 && !in_ctx_dereg) W->has_ctx = false;
        }
        return;
    }
    if (n == "start" || n == "pause" || n == "resume" || n == "stop") {
        ApiScope a(n.c_str(), m);
        int rc = n == "start" ? m_mod_start(h) : n == "pause" ? m_mod_pause(h) : n == "resume" ? m_mod_resume(h) : m_mod_stop(h);
        a.done(rc);
        sim::tr(op.name.c_str(), m, rc);
        return;
    }
    if (n == "bind") {
        int r2 = pick_slot(op.arg(1));
        m_mod_t *h2 = W->slots[r2].handle();
        if (!h2) return;
        ApiScope a("bind", m);
        a.done(m_mod_bind(h, h2));
        return;
    }
    if (n == "ref") { m_mem_ref(h); s.user_refs++; sim::tr("ref", m); return; }
    if (n == "unref") { if (s.user_refs > 0) { s.user_refs--; m_mem_unref(h); sim::tr("unref", m); } return; }
    if (n == "query") {
        // plain getters + read-only calls; on zombies too
        const char *nm = m_mod_name(h);
        bool is = m_mod_is(h, (m_mod_states)(M_MOD_RUNNING | M_MOD_PAUSED));
        (void)is;
        if (on("C04")) {
            oracle_eval("C04.zombie-valid");
            if (!nm || s.name != nm) VIOL("C04", "C04:zombie-name", "m_mod_name of slot %d returned %s, registered as %s", m, nm ? nm : "NULL", s.name.c_str());
        }
        m_mod_stats_t st;
        ApiScope a("query", m);
        int rc = m_mod_stats(h, &st);
        if (op.arg(1) & 1) m_mod_dump(h);
        if (op.arg(1) & 2) { m_mod_t *l = m_mod_lookup(h, s.name.c_str()); (void)l; }
        a.done(rc);
        return;
    }
    // ---------------- pub/sub
    if (n == "tell" || n == "pill") {
        int to = pick_slot(op.arg(1));
        do_send(n == "tell" ? 0 : 3, m, to, 0, op.arg(2) != 0, 1);
        return;
    }
    if (n == "burst") {
        int to = pick_slot(op.arg(1));
        long cnt = std::max(1L, std::min(9000L, op.arg(2)));
        do_send(0, m, to, 0, op.arg(3) != 0, (int)cnt);
        return;
    }
    if (n == "pub") { do_send(1, m, -1, op.arg(1), op.arg(2) != 0, 1); return; }
    if (n == "bcast") { do_send(2, m, -1, 0, op.arg(1) != 0, 1); return; }
    if (n == "sub") {
        const char *topic = topic_by_index(op.arg(1));
        unsigned fl = src_flags_from(op.arg(2) & (1 | 2 | 4 | 16 | 32 | 64));
        const void *ud;
        uint64_t id = ud_new((fl & M_SRC_AUTOFREE) != 0, &ud);
        // with M_SRC_DUP the library must keep its own copy: the caller's string lives in a temporary buffer that is released (and
        // poisoned) right after the call
        struct TmpStr { char *p = nullptr; ~TmpStr() { if (p) sk_free(p); } } tmp_topic;   // released when the op is over (after the before/after snapshots)
        if (fl & M_SRC_DUP) {
            tmp_topic.p = (char *)sk_malloc(strlen(topic) + 1);
            strcpy(tmp_topic.p, topic);
        }
        ApiScope a("sub", m);
        int rc = a.done(m_mod_ps_subscribe(h, tmp_topic.p ? tmp_topic.p : topic, (m_src_flags)fl, ud));
        sim::tr("sub", m, op.arg(1), rc);
        {
            regex_t tmp;
            bool re_valid = regcomp(&tmp, topic, REG_NOSUB) == 0;
            if (re_valid) regfree(&tmp);
            unsigned pr = fl & (M_SRC_PRIO_LOW | M_SRC_PRIO_NORM | M_SRC_PRIO_HIGH);
            c09_register(m, M_SRC_TYPE_PS, (long)(sim::hash_str(topic) & 0x7fffffffffffLL), 0, re_valid && __builtin_popcount(pr) <= 1, rc, true, a.snap0);
            if (rc != 0 && (fl & M_SRC_AUTOFREE) && R->a.is_live(ud)) sk_free((void *)ud);
        }
        if (rc == 0) {
            auto it = s.subs.find(topic);
            bool same_flags_update = it != s.subs.end() && it->second.flags == fl;
            if (it != s.subs.end()) {
                // updated in place: if flags are identical only the user data changes (the fresh user data stays ours)
                if (same_flags_update) {
                    if (fl & M_SRC_AUTOFREE) { /* ownership of the new pointer passed to the existing subscription */ }
                    it->second.ud = id;
                    s.sub_history.push_back({topic, id, fl, R->gseq});
                    if (fl & M_SRC_ONESHOT) s.oneshot_sub_uds.insert(id);
                    return;
                }
                if (it->second.re_ok) regfree(&it->second.re);
                s.subs.erase(it);
            }
            s.sub_history.push_back({topic, id, fl, R->gseq});
            if (fl & M_SRC_ONESHOT) s.oneshot_sub_uds.insert(id);
            if (op.arg(1) >= 100) s.pending_exact = false;   // system notifications will share the mailbox
            SubM sm;
            sm.topic = topic;
            sm.flags = fl;
            sm.ud = id;
            sm.topic_ptr = topic;
            sm.re_ok = regcomp(&sm.re, topic, REG_NOSUB) == 0;
            s.subs[topic] = sm;
        }
        return;
    }
    if (n == "unsub") {
        const char *topic = topic_by_index(op.arg(1));
        ApiScope a("unsub", m);
        int rc = a.done(m_mod_ps_unsubscribe(h, topic));
        sim::tr("unsub", m, op.arg(1), rc);
        c09_deregister(m, M_SRC_TYPE_PS, (long)(sim::hash_str(topic) & 0x7fffffffffffLL), 0, rc, a.snap0);
        if (rc == 0) {
            auto it = s.subs.find(topic);
            if (it != s.subs.end()) { if (it->second.re_ok) regfree(&it->second.re); s.subs.erase(it); }
        }
        return;
    }
    // ---------------- sources
    {
        auto prio_valid = [](unsigned fl, bool is_fd) {
            unsigned p = fl & (M_SRC_PRIO_LOW | M_SRC_PRIO_NORM | M_SRC_PRIO_HIGH);
            if (__builtin_popcount(p) > 1) return false;
            if (is_fd && p && p != M_SRC_PRIO_HIGH) return false;
            return true;
        };
        // generic register: 'call' performs the library call with the user data pointer
        auto do_register = [&](const char *name, int type, long k1, long k2, bool valid, unsigned fl, std::function<int(const void *)> call, std::function<void(SrcM &)> fill) {
            const void *ud;
            uint64_t id = ud_new((fl & M_SRC_AUTOFREE) != 0, &ud);
            if (type == M_SRC_TYPE_TASK) g_task_params[id] = TaskParam{(uint64_t)std::max(0L, op.arg(2)) * 1000ULL, (int)op.arg(3)};
            ApiScope a(name, m);
            int rc = a.done(call(ud));
            sim::tr(op.name.c_str(), m, k1, rc);
            if (rc == 0) {
                SrcM x;
                x.type = type; x.k1 = k1; x.k2 = k2; x.flags = fl; x.ud = id; x.reg_gseq = R->gseq;
                x.oneshot = (fl & M_SRC_ONESHOT) || type == M_SRC_TYPE_TASK || type == M_SRC_TYPE_THRESH;
                if (fill) fill(x);
                s.srcs.push_back(x);
            }
            c09_register(m, type, k1, type == M_SRC_TYPE_TASK ? 0 : k2, valid, rc, false, a.snap0);
            if (rc != 0 && (fl & M_SRC_AUTOFREE)) {
                // refused: the user data stays ours (the library no longer touches it)
                if (on("C04") && !R->a.is_live(ud))
                    VIOL("C04", "C04:refused-registration-freed-userdata", "%s returned %d but released the auto-free user data passed to it: the caller still owns it and will use / free it", name, rc);
                if (R->a.is_live(ud)) sk_free((void *)ud);
                W->udptr2id.erase(ud);
            }
            return rc;
        };
        auto do_deregister = [&](const char *name, int type, long k1, long k2, std::function<int()> call) {
            ApiScope a(name, m);
            int rc = a.done(call());
            sim::tr(op.name.c_str(), m, k1, rc);
            if (rc == 0) erase_src(s, type, k1, k2);
            c09_deregister(m, type, k1, type == M_SRC_TYPE_TASK ? 0 : k2, rc, a.snap0);
        };
        if (n == "src_fd" || n == "unsrc_fd") {
            if (W->ufds.empty()) return;
            int k = (int)(((op.arg(1) % (long)W->ufds.size()) + W->ufds.size()) % W->ufds.size());
            if (W->prog.get("fdpermod", 0)) {
                // avoid(known finding C09: one descriptor cannot be polled for two modules of a context): private descriptors per module
                k = m * 3 + (int)(((op.arg(1) % 3) + 3) % 3);
                while ((int)W->ufds.size() <= k) make_ufd((int)W->ufds.size());
            }
            if (!ufd_valid(k)) {   // previous descriptor was auto-closed: use a fresh one
                if (W->ufds[k].second >= 0 && R->k.is_open(W->ufds[k].second) && R->k.fds[W->ufds[k].second].owner == sim::OWN_USER) R->k.k_close(W->ufds[k].second, sim::OWN_USER);
                make_ufd(k);
            }
            int fd = W->ufds[k].first;
            if (n == "src_fd") {
                unsigned fl = src_flags_from(op.arg(2) & (1 | 2 | 4 | 8 | 16 | 32));
                if ((fl & M_SRC_DUP) && (fl & M_SRC_FD_AUTOCLOSE)) fl &= ~M_SRC_FD_AUTOCLOSE;   // who owns what is unspecified for DUP|AUTOCLOSE
                g_src_unpollable_fd = R->k.get(fd) && R->k.get(fd)->kind == sim::F_STD;
                do_register("src_fd", M_SRC_TYPE_FD, k, 0, prio_valid(fl, true), fl,
                            [&](const void *ud) { return m_mod_src_register_fd(h, fd, (m_src_flags)fl, ud); },
                            [&](SrcM &x) {
                                x.fd = fd; x.ufd = k;
                                if ((fl & M_SRC_FD_AUTOCLOSE) && !(fl & M_SRC_DUP)) {
                                    AutoReg ar; ar.fd = fd; ar.file_id = R->k.get(fd)->id; ar.slot = m; ar.ud = x.ud;
                                    W->autoclose_regs.push_back(ar);
                                }
                            });
                g_src_unpollable_fd = false;
            } else {
                do_deregister("unsrc_fd", M_SRC_TYPE_FD, k, 0, [&]() { return m_mod_src_deregister_fd(h, fd); });
            }
            return;
        }
        if (n == "src_tmr" || n == "unsrc_tmr") {
            m_src_tmr_t t;
            bool valid = op.arg(1) >= 0;
            long ki = valid ? op.arg(1) % TMR_NS_POOL_N : 0;
            t.ns = valid ? TMR_NS_POOL[ki] : 0;
            t.clock_id = (op.arg(3) & 1) ? CLOCK_REALTIME : CLOCK_MONOTONIC;
            if (n == "src_tmr") {
                unsigned fl = src_flags_from(op.arg(2) & (1 | 2 | 16 | 32 | 64));
                do_register("src_tmr", M_SRC_TYPE_TMR, ki, 0, valid && prio_valid(fl, false), fl, [&](const void *ud) { return m_mod_src_register_tmr(h, &t, (m_src_flags)fl, ud); }, nullptr);
            } else if (valid) {
                do_deregister("unsrc_tmr", M_SRC_TYPE_TMR, ki, 0, [&]() { return m_mod_src_deregister_tmr(h, &t); });
            }
            return;
        }
        if (n == "src_sgn" || n == "unsrc_sgn") {
            m_src_sgn_t sg;
            bool valid = op.arg(1) >= 0;
            sg.signo = valid ? (unsigned)(1 + (op.arg(1) % 30)) : 0;
            if (n == "src_sgn") {
                unsigned fl = src_flags_from(op.arg(2) & (1 | 2 | 16 | 32));
                do_register("src_sgn", M_SRC_TYPE_SGN, sg.signo, 0, valid && prio_valid(fl, false), fl, [&](const void *ud) { return m_mod_src_register_sgn(h, &sg, (m_src_flags)fl, ud); }, nullptr);
            } else if (valid) {
                do_deregister("unsrc_sgn", M_SRC_TYPE_SGN, sg.signo, 0, [&]() { return m_mod_src_deregister_sgn(h, &sg); });
            }
            return;
        }
        if (n == "src_path" || n == "unsrc_path") {
            bool valid = op.arg(1) >= 0;
            long pi = valid ? op.arg(1) % PATH_POOL_N : 0;
            m_src_path_t pt;
            pt.path = valid ? PATH_POOL[pi] : "";
            struct TmpStr { char *p = nullptr; ~TmpStr() { if (p) sk_free(p); } } tmp_path;   // (same for a DUP'd path)
            if (valid && n == "src_path" && (src_flags_from(op.arg(2) & (1 | 2 | 4 | 16 | 32)) & M_SRC_DUP)) {
                tmp_path.p = (char *)sk_malloc(strlen(pt.path) + 1);
                strcpy(tmp_path.p, pt.path);
                pt.path = tmp_path.p;
            }
            pt.events = 0x2 | 0x100;
            if (n == "src_path") {
                unsigned fl = src_flags_from(op.arg(2) & (1 | 2 | 4 | 16 | 32));
                do_register("src_path", M_SRC_TYPE_PATH, pi, 0, valid && prio_valid(fl, false), fl, [&](const void *ud) { return m_mod_src_register_path(h, &pt, (m_src_flags)fl, ud); }, nullptr);
            } else if (valid) {
                do_deregister("unsrc_path", M_SRC_TYPE_PATH, pi, 0, [&]() { return m_mod_src_deregister_path(h, &pt); });
            }
            return;
        }
        if (n == "src_pid" || n == "unsrc_pid") {
            m_src_pid_t pd;
            bool valid = op.arg(1) >= 0;
            pd.pid = valid ? (pid_t)(100 + op.arg(1) % 8) : 0;
            pd.events = 0;
            if (n == "src_pid") {
                unsigned fl = src_flags_from(op.arg(2) & (1 | 2 | 16 | 32));
                g_src_unpollable_pid = valid ? (int)pd.pid : -1;   // (a process that is gone by the time of the call cannot be polled: a module that is polling its sources may refuse it)
                do_register("src_pid", M_SRC_TYPE_PID, pd.pid, 0, valid && prio_valid(fl, false), fl, [&](const void *ud) { return m_mod_src_register_pid(h, &pd, (m_src_flags)fl, ud); }, nullptr);
                g_src_unpollable_pid = -1;
            } else if (valid) {
                do_deregister("unsrc_pid", M_SRC_TYPE_PID, pd.pid, 0, [&]() { return m_mod_src_deregister_pid(h, &pd); });
            }
            return;
        }
        if (n == "src_task" || n == "unsrc_task") {
            m_src_task_t tk;
            tk.tid = (int)(((op.arg(1) % 6) + 6) % 6);
            bool valid = op.arg(5, 0) == 0;
            tk.fn = valid ? task_fn : nullptr;
            if (n == "src_task") {
                unsigned fl = src_flags_from(op.arg(4) & 2);
                do_register("src_task", M_SRC_TYPE_TASK, tk.tid, op.arg(3), valid, fl, [&](const void *ud) { return m_mod_src_register_task(h, &tk, (m_src_flags)fl, ud); }, nullptr);
            } else {
                do_deregister("unsrc_task", M_SRC_TYPE_TASK, tk.tid, 0, [&]() { return m_mod_src_deregister_task(h, &tk); });
            }
            return;
        }
        if (n == "src_thresh" || n == "unsrc_thresh") {
            m_src_thresh_t th;
            th.inactive_ms = (uint64_t)std::max(0L, op.arg(1));
            th.activity_freq = (double)std::max(0L, op.arg(2)) / 4.0;
            bool valid = th.inactive_ms != 0 || th.activity_freq != 0;
            if (n == "src_thresh") {
                unsigned fl = src_flags_from(op.arg(3) & 2);
                do_register("src_thresh", M_SRC_TYPE_THRESH, (long)th.inactive_ms, std::max(0L, op.arg(2)), valid, fl, [&](const void *ud) { return m_mod_src_register_thresh(h, &th, (m_src_flags)fl, ud); }, nullptr);
            } else if (valid) {
                do_deregister("unsrc_thresh", M_SRC_TYPE_THRESH, (long)th.inactive_ms, std::max(0L, op.arg(2)), [&]() { return m_mod_src_deregister_thresh(h, &th); });
            }
            return;
        }
    }
    // ---------------- events: stash / become / batching / token bucket
    if (n == "stash") {
        if (W->cur_delivery.empty()) return;
        Delivery *d = W->cur_delivery.back();
        if (d->evts.empty() || d->slot != m) return;
        EvtObs &e = d->evts[((op.arg(1) % (long)d->evts.size()) + d->evts.size()) % d->evts.size()];
        int st_now = state_of(m);
        ApiScope a("stash", m);
        int rc = a.done(m_mod_stash(h, e.raw));
        sim::tr("stash", m, rc);
        if (on("C16")) {
            oracle_eval("C16.stash-allowed");
            // high priority: descriptor events always, anything whose source/subscription was registered HIGH
            bool high = e.type == M_SRC_TYPE_FD || e.prio == 2;   // (classified when the event was handed over: a stop meanwhile wipes the mirrors)
            if (e.type == M_SRC_TYPE_PS) { for (auto &hh : s.sub_history) if (hh.second == e.ud && e.ud && (hh.flags & M_SRC_PRIO_HIGH)) high = true; }
            else {
                for (auto &x : s.srcs) if (x.type == e.type && x.ud == e.ud && (x.flags & M_SRC_PRIO_HIGH)) high = true;
                for (auto &x : s.recent_srcs) if (x.type == e.type && x.ud == e.ud && (x.flags & M_SRC_PRIO_HIGH)) high = true;   // (a one-shot source is gone by the time its event is handled)
            }
            if (st_now != ST_RUNNING && rc >= 0) VIOL("C16", "C16:stash-while-not-running", "m_mod_stash on a %s module returned %d", st_name(st_now), rc);
            if (high && rc >= 0) VIOL("C16", "C16:stash-high-priority-accepted", "stashing a high-priority event returned %d", rc);
            if (st_now == ST_RUNNING && !high && e.prio >= 0 && rc != 0 && s.tb_rate == 0 && calm(m)) VIOL("C16", "C16:stash-refused", "stashing a %s-priority event on a RUNNING module returned %d", "normal/low", rc);
        }
        if (rc == 0) s.stash.push_back(StashM{e.send_id, e.ud, e.type, e.data, e.raw});
        return;
    }
    if (n == "unstash") {
        size_t cnt = op.arg(1) < 0 ? SIZE_MAX : (size_t)op.arg(1);
        int st_now = state_of(m);
        size_t k = st_now == ST_RUNNING && cnt > 0 ? std::min(cnt, s.stash.size()) : 0;
        World::C16Expect ex;
        ex.slot = m; ex.k = k; ex.seen = false;
        for (size_t i = 0; i < k; i++) ex.want.push_back(s.stash[i]);
        W->c16_expect.push_back(ex);
        // the mirror gives them up before the handler runs (it may stash again)
        for (size_t i = 0; i < k; i++) s.stash.pop_front();
        ApiScope a("unstash", m);
        g_unstash_depth++;
        ssize_t rc = m_mod_unstash(h, cnt);
        g_unstash_depth--;
        a.done((int)rc);
        sim::tr("unstash", m, (long)op.arg(1), (long)rc);
        ex = W->c16_expect.back();
        W->c16_expect.pop_back();
        if (rc < 0 && !ex.seen) {
            // refused (e.g. -EAGAIN from an empty token bucket) and nothing was handed over: the events are still stashed, ahead of
            // anything a nested callback may have stashed meanwhile
            for (size_t i = k; i > 0; i--) s.stash.push_front(ex.want[i - 1]);
        }
        if (on("C16")) {
            oracle_eval("C16.unstash-count");
            if (st_now != ST_RUNNING || cnt == 0) {
                if (rc >= 0 && st_now != ST_RUNNING) VIOL("C16", "C16:unstash-while-not-running", "m_mod_unstash on a %s module returned %zd", st_name(st_now), rc);
            } else if (s.tb_rate == 0 && calm(m)) {
                if (rc != (ssize_t)k) {
                    char sig[64];
                    snprintf(sig, sizeof sig, "C16:unstash-return:%s", rc < (ssize_t)k ? "fewer" : "more");
                    VIOL("C16", sig, "m_mod_unstash(%ld) with %zu stashed event(s) returned %zd, expected %zu", op.arg(1), k + s.stash.size(), rc, k);
                }
                if (k > 0 && !ex.seen) VIOL("C16", "C16:unstash-no-invocation", "m_mod_unstash(%ld) should have handed %zu event(s) to the current handler but did not invoke it", op.arg(1), k);
            }
        }
        return;
    }
    if (n == "become") {
        int hi = (int)(1 + ((op.arg(1) % 3) + 3) % 3);
        int st_now = state_of(m);
        ApiScope a("become", m);
        int rc = a.done(m_mod_become(h, HANDLERS[hi]));
        sim::tr("become", m, hi, rc);
        if (on("C17")) {
            oracle_eval("C17.become-legality");
            if (st_now != ST_RUNNING && rc >= 0) VIOL("C17", "C17:become-while-not-running", "m_mod_become on a %s module returned %d", st_name(st_now), rc);
            if (st_now == ST_RUNNING && rc != 0 && s.tb_rate == 0 && calm(m)) VIOL("C17", "C17:become-refused", "m_mod_become on a RUNNING module returned %d", rc);
        }
        if (rc == 0) s.hstack.push_back(hi);
        return;
    }
    if (n == "unbecome") {
        int st_now = state_of(m);
        ApiScope a("unbecome", m);
        int rc = a.done(m_mod_unbecome(h));
        sim::tr("unbecome", m, rc);
        if (on("C17")) {
            oracle_eval("C17.unbecome-legality");
            if (st_now != ST_RUNNING && rc >= 0) VIOL("C17", "C17:unbecome-while-not-running", "m_mod_unbecome on a %s module returned %d", st_name(st_now), rc);
            if (st_now == ST_RUNNING && s.hstack.empty() && rc >= 0) VIOL("C17", "C17:unbecome-empty-accepted", "m_mod_unbecome with an empty handler stack returned %d", rc);
            if (st_now == ST_RUNNING && !s.hstack.empty() && rc != 0 && s.tb_rate == 0 && calm(m)) VIOL("C17", "C17:unbecome-refused", "m_mod_unbecome with %zu stacked handler(s) returned %d", s.hstack.size(), rc);
        }
        if (rc == 0 && !s.hstack.empty()) s.hstack.pop_back();
        return;
    }
    if (n == "batch_size") {
        ApiScope a("batch_size", m);
        int rc = a.done(m_mod_set_batch_size(h, (size_t)std::max(0L, op.arg(1))));
        sim::tr("batch_size", m, op.arg(1), rc);
        if (rc == 0) { s.batch_size = (size_t)std::max(0L, op.arg(1)); s.batch_changed_gseq = R->gseq; }
        return;
    }
    if (n == "batch_timeout") {
        uint64_t ns = op.arg(1) <= 0 ? 0 : TMR_NS_POOL[op.arg(1) % TMR_NS_POOL_N];
        ApiScope a("batch_timeout", m);
        int rc = a.done(m_mod_set_batch_timeout(h, ns));
        sim::tr("batch_timeout", m, op.arg(1), rc);
        if (rc == 0) { s.batch_timeout = ns; s.batch_changed_gseq = R->gseq; s.batch_timer_armed_at = R->now; s.batch_timer_exact = R->cfg.cost_ns == 0; }
        return;
    }
    if (n == "tb") {
        ApiScope a("tb", m);
        int rc = a.done(m_mod_set_tokenbucket(h, (uint32_t)std::max(0L, op.arg(1)), (uint64_t)std::max(0L, op.arg(2))));
        sim::tr("tb", m, op.arg(1), rc);
        if (rc == 0 || (rc == -EEXIST && op.arg(1) > 0)) {
            // (the new bucket is in force even when registering its refill timer was refused by the old bucket)
            s.tb_rate = (uint32_t)std::max(0L, op.arg(1)); s.tb_burst = (uint64_t)std::max(0L, op.arg(2));
            s.tb_set_time = R->now; s.tb_set_gseq = R->gseq; s.tb_st_at_set = s.st; s.tb_enter_running_at_set = s.enter_running_from_rest; s.tb_charged_max = 0; s.tb_success_times.clear(); s.tb_refusal_armed = false;
        }
        return;
    }
    if (n == "evt_ref") {
        if (W->cur_delivery.empty()) return;
        Delivery *d = W->cur_delivery.back();
        if (d->evts.empty()) return;
        EvtObs &e = d->evts[((op.arg(1) % (long)d->evts.size()) + d->evts.size()) % d->evts.size()];
        m_mem_ref((void *)e.raw);
        RetainedEvt re;
        re.raw = e.raw; re.first = e; re.slot = d->slot;
        W->retained.push_back(re);
        sim::tr("evt_ref", d->slot);
        R->ctr.probe("event_retained_by_user");
        return;
    }
    if (n == "evt_check" || n == "evt_unref") {
        if (W->retained.empty()) return;
        RetainedEvt &re = W->retained[((op.arg(1) % (long)W->retained.size()) + W->retained.size()) % W->retained.size()];
        if (re.released) return;
        EvtObs now;
        observe(re.raw, now);
        oracle_eval("C04.retained-event-valid");
        if (on("C04")) {
            if (now.type != re.first.type || now.data != re.first.data || now.fd != re.first.fd || now.ns != re.first.ns || now.signo != re.first.signo ||
                now.topic_s != re.first.topic_s || now.sender != re.first.sender || now.userdata != re.first.userdata || now.pid != re.first.pid || now.tid != re.first.tid)
                VIOL("C04", "C04:retained-event-changed", "an event the user holds a reference on changed content (type %d)", re.first.type);
            if (now.userdata && R->a.is_freed(now.userdata))
                VIOL("C04", "C04:event-userdata-freed:retained", "the auto-free user data of an event (type %d) the user still holds a reference on has been released", re.first.type);
            if (now.sender) {
                const char *nm = m_mod_name((const m_mod_t *)now.sender);
                (void)nm;
            }
        }
        if (n == "evt_unref") {
            re.released = true;
            m_mem_unref((void *)re.raw);
            sim::tr("evt_unref");
        }
        return;
    }
    (void)cb_slot;
}

static void do_send(int kind, int from, int to, long topic_idx, bool autofree, int count) {
    Slot &s = W->slots[from];
    m_mod_t *h = s.handle();
    if (!h) return;
    m_mod_t *rh = nullptr;
    if (kind == 0 || kind == 3) {
        if (to < 0) return;
        rh = W->slots[to].handle();
        if (!rh) return;
    }
    const char *topic = kind == 1 ? topic_by_index(topic_idx) : nullptr;
    for (int i = 0; i < count; i++) {
        W->sends.emplace_back();
        SendRec &sd = W->sends.back();
        sd.id = (long)W->sends.size() - 1;
        sd.kind = kind; sd.from = from; sd.to = to;
        sd.autofree = autofree && kind != 3;
        if (topic) { sd.topic = topic; sd.topic_ptr = topic; }
        if (kind != 3) {
            if (sd.autofree) {
                R->a.cur_tag = TAG_PAYLOAD;
                sd.payload = sk_malloc(16);
                R->a.cur_tag = 0;
                memcpy((void *)sd.payload, &sd.id, 8);
            } else {
                sd.payload = &g_payload_cells[sd.id % (long)sizeof(g_payload_cells)];
            }
            W->payload2send[sd.payload] = sd.id;
        }
        // who is eligible right now (from observed states and the subscription mirror)
        sample_states("send");
        if (kind == 0 || kind == 3) {
            int st = W->slots[to].st;
            if (st == ST_RUNNING || st == ST_PAUSED) sd.eligible.push_back(to);
        } else {
            for (auto &o : W->slots) {
                if (o.st != ST_RUNNING && o.st != ST_PAUSED) continue;
                if (kind == 2) { sd.eligible.push_back(o.idx); continue; }
                bool match = false, oneshot = false, low = false;
                for (auto &kv : o.subs) {
                    bool m1 = kv.first == topic || (kv.second.re_ok && regexec(&kv.second.re, topic, 0, nullptr, 0) == 0);
                    if (m1) { match = true; if (kv.second.flags & M_SRC_ONESHOT) oneshot = true; if (kv.second.flags & M_SRC_PRIO_LOW) low = true; }
                }
                if (match) sd.eligible.push_back(o.idx);
                if (match && low) sd.low_matched.insert(o.idx);
                if (match && oneshot) sd.oneshot_matched.insert(o.idx);
            }
        }
        bool known = false;
        sd.ctx_looping = (s.flags & M_MOD_DENY_CTX) ? false : ctx_is_looping_probe(&known);
        // final-flush phase: inside the loop/dispatch call, the loop run not yet over, but the context no longer LOOPING
        sd.in_flush = (frame_on_stack_any("loop") || frame_on_stack_any("dispatch")) && known && !sd.ctx_looping && !W->loops.empty() && !W->loops.back().ended;
        if (!W->cur_delivery.empty() && W->cur_delivery.back()->looping_known && !W->cur_delivery.back()->ctx_looping && !W->loops.empty() && !W->loops.back().ended) sd.in_flush = true;
        sd.loop_run = W->loops.empty() ? 0 : W->loops.back().id;
        uint64_t full_before = R->ctr.faults.count("pipe_full") ? R->ctr.faults["pipe_full"] : 0;
        W->next_actor = from;
        W->c15_reserved_topic = topic && !strncmp(topic, "LIBMODULE_", 10);
        ApiScope a(kind == 0 ? "tell" : kind == 1 ? "pub" : kind == 2 ? "bcast" : "pill", kind == 3 ? to : from);
        int rc;
        m_ps_flags pf = (m_ps_flags)(sd.autofree ? M_PS_AUTOFREE : 0);
        if (kind == 0) rc = m_mod_ps_tell(h, rh, sd.payload, pf);
        else if (kind == 1) rc = m_mod_ps_publish(h, topic, sd.payload, pf);
        else if (kind == 2) rc = m_mod_ps_publish(h, nullptr, sd.payload, pf);
        else rc = m_mod_ps_poisonpill(h, rh);
        sd.gseq = R->gseq;
        sd.rc = rc;
        uint64_t full_after = R->ctr.faults.count("pipe_full") ? R->ctr.faults["pipe_full"] : 0;
        {
            // whose mailbox was full? exact when the mirror can count what is in each mailbox (>= 8192 messages fit),
            // otherwise fall back to "some write hit a full pipe during this call: no obligation for anybody"
            bool all_exact = true, any_full = false;
            for (int e : sd.eligible) { if (!W->slots[e].pending_exact) all_exact = false; if (W->slots[e].pending >= 8192) any_full = true; }
            bool kernel_full = full_after > full_before;
            if (kernel_full) R->ctr.probe("send_hit_full_pipe");
            if (all_exact && kernel_full == any_full) {
                for (int e : sd.eligible) if (W->slots[e].pending >= 8192) sd.overflow.push_back(e);
            } else if (kernel_full || any_full) {
                sd.overflow = sd.eligible;
                for (int e : sd.eligible) W->slots[e].pending_exact = false;
            }
            if (rc == 0) for (int e : sd.eligible) if (!std::count(sd.overflow.begin(), sd.overflow.end(), e)) W->slots[e].pending++;
        }
        if (rc != 0) {
            sd.eligible.clear();
        } else if (kind == 3) {
            if (W->slots[to].pills_pending == 0) { W->slots[to].pending_pill_first_gseq = sd.gseq; W->slots[to].pill_overflowed = false; }
            if (!sd.overflow.empty()) W->slots[to].pill_overflowed = true;
            if (sd.in_flush) W->slots[to].pill_wildcard = true;
            W->slots[to].pills_pending++;
            W->slots[to].pending_pill_gseq = sd.gseq;
        }
        a.done(rc);
        if (rc != 0 && sd.autofree && sd.payload && R->a.is_live(sd.payload)) { W->payload2send.erase(sd.payload); sk_free((void *)sd.payload); sd.payload = nullptr; }   // refused: the payload stays ours
        if (count == 1) sim::tr(kind == 0 ? "tell" : kind == 1 ? "pub" : kind == 2 ? "bcast" : "pill", from, to, rc);
        orc_send(sd);
    }
    if (count > 1) sim::tr("burst", from, to, count);
}

// ------------------------------------------------------------------ driver + teardown
static void quiescent_hook(bool real_poll) {
    if (!W) return;
    W->quiescent_real = real_poll;
    if (sim::self_id() != 0) return;
    sample_states("quiescent");
    W->quiescent_points++;
    orc_quiescent();
    for (auto &s : W->slots) s.recent_srcs.clear();
    W->last_quiescent_gseq = R->gseq;
    if (real_poll) {
        W->last_real_poll_gseq = R->gseq; W->real_polls++; W->last_real_poll_time = R->now;
        for (auto &sl : W->slots)
            if (sl.tb_refusal_armed && sl.tb_rate && R->now > sl.tb_refused_at + 2 * (1000000000ULL / sl.tb_rate) + R->cfg.timer_late_ns + 2000000ULL) sl.tb_polls_after_due++;
    }
    W->reg_dereg_since_quiescent = 0;
    W->batches_at_last_quiescent = R->k.batches.size();
    W->loop_start_pending_eval = false;
}

void teardown() {
    sim::tr("teardown", W->teardown_style);
    // avoid(known finding: task thread vs module stop): outside C04 let running task bodies finish before modules go away
    if (!on("C04") && R->threads.size() > 1 && !sim::all_others_done()) sim::sleep_ns(50000000ULL);
    // 1. stop a loop that is still running (dispatch mode)
    bool known;
    if (ctx_is_looping_probe(&known)) {
        Op q; q.where = "D"; q.name = "ctx_quit"; q.a = {0};
        exec_op(q, false, -1);
        for (int i = 0; i < 3 && ctx_is_looping_probe(&known); i++) do_dispatch_once();
    }
    // 2. modules first or context first
    if (W->teardown_style == 0) {
        for (size_t i = 0; i < W->slots.size(); i++) {   // by index: callbacks may register further modules
            if (!W->slots[i].h) continue;
            if (state_of((int)i) == ST_ZOMBIE) continue;
            Op d; d.where = "D"; d.name = "dereg"; d.a = {(long)i};
            exec_op(d, false, -1);
        }
    }
    ctx_is_looping_probe(&known);
    if (known) {
        Op d; d.where = "D"; d.name = "ctx_dereg";
        exec_op(d, false, -1);
    }
    sample_states("teardown");
    // 3. drop every reference the harness still holds
    for (auto &re : W->retained) if (!re.released) { re.released = true; m_mem_unref((void *)re.raw); }
    for (auto &s : W->slots) {
        while (s.user_refs > 0) { m_mod_t *hh = s.handle(); s.user_refs--; m_mem_unref(hh); }
        if (s.h) { m_mem_unref(s.h); s.h = nullptr; }
        if (s.keep) { m_mem_unref(s.keep); s.keep = nullptr; }
    }
    // user descriptors
    for (auto &u : W->ufds) {
        if (R->k.is_open(u.first) && R->k.fds[u.first].owner == sim::OWN_USER) R->k.k_close(u.first, sim::OWN_USER);
        if (u.second >= 0 && R->k.is_open(u.second) && R->k.fds[u.second].owner == sim::OWN_USER) R->k.k_close(u.second, sim::OWN_USER);
    }
    W->ufds.clear();
}

void run_driver() {
    R->k.on_epoll_wait = []() { quiescent_hook(true); };
    for (const Op &op : W->prog.ops) {
        if (op.where != "D") continue;
        exec_op(op, false, -1);
    }
    teardown();
    R->k.on_epoll_wait = nullptr;
    orc_run_end();
}
