// Oracles for C13 C15 C16 C17 C18 C19.
#include "core.h"
using sim::R;

void orc_c13_delivery(Delivery &d) { (void)d; }
void orc_c13_quiescent() {}
void orc_c15_api(const ApiRec &r, const Frame &f, const std::string &snap0, const std::string &snap1) { (void)r; (void)f; (void)snap0; (void)snap1; }
void orc_c16_delivery(Delivery &d) { (void)d; }
void orc_c16_run_end() {}
void orc_c17_delivery(Delivery &d) { (void)d; }
void orc_c18_api(const ApiRec &r, const Frame &f, const std::string &snap0, const std::string &snap1) { (void)r; (void)f; (void)snap0; (void)snap1; }
void orc_c19_delivery(Delivery &d) { (void)d; }
void orc_c19_loop_end(LoopRun &lr) { (void)lr; }
void orc_c19_run_end() {}
