// Oracles for C13 C15 C16 C17 C18 C19.
#include "core.h"
using sim::R;

static bool has(const std::vector<int> &v, int x) { return std::find(v.begin(), v.end(), x) != v.end(); }
static bool in_flush_phase(const Delivery &d) { return d.looping_known && !d.ctx_looping; }

// priority of a delivered event as the module configured it: 0 low, 1 normal, 2 high
int evt_prio(Slot &s, const EvtObs &e) {
    if (e.type == M_SRC_TYPE_FD) return 2;
    unsigned fl = 0;
    bool found = false;
    if (e.type == M_SRC_TYPE_PS) {
        if (!e.ud) return 1;   // direct tell / broadcast / unmatched system message
        for (auto &h : s.sub_history) if (h.second == e.ud) { fl = h.flags; found = true; }
    } else {
        for (auto &x : s.srcs) if (x.type == e.type && x.ud == e.ud) { fl = x.flags; found = true; }
        for (auto &x : s.recent_srcs) if (x.type == e.type && x.ud == e.ud) { fl = x.flags; found = true; }
    }
    if (!found) return -1;
    if (fl & M_SRC_PRIO_HIGH) return 2;
    if (fl & M_SRC_PRIO_LOW) return 0;
    return 1;
}

// =================================================================== C13
void orc_c13_delivery(Delivery &d) {
    if (d.in_unstash || d.evts.empty()) return;
    Slot &s = W->slots[d.slot];
    oracle_eval("C13.invocation-trigger");
    size_t n = d.evts.size();
    int last = evt_prio(s, d.evts.back());
    if (last < 0) return;   // cannot classify (source gone): nothing to say
    bool flush = in_flush_phase(d) || s.pills_pending > 0;   // final flush / pill hand over whatever is accumulated
    size_t k = s.batch_size;
    bool timed = s.batch_timeout != 0;
    // settings may have been changed by the previous invocation or the driver since the events accumulated: use the laxest reading
    if (s.batch_changed_gseq > s.last_delivery_gseq) { s.last_delivery_gseq = d.gseq; return; }
    s.last_delivery_gseq = d.gseq;
    if (flush) return;
    // --- a trigger must not have been passed over: the handler runs "exactly when" one arrives
    oracle_eval("C13.trigger-not-passed-over");
    for (size_t i = 0; i + 1 < n; i++) {
        int p = evt_prio(s, d.evts[i]);
        if (p == 2)
            VIOL("C13", d.evts[i].type == M_SRC_TYPE_FD ? "C13:high-priority-event-batched:fd" : "C13:high-priority-event-batched",
                 "module slot %d received %zu events at once with a high-priority event (type %d) at position %zu: it did not cause an invocation when it arrived", d.slot, n, d.evts[i].type, i);
        if (p == 1 && k > 0 && i + 1 >= k)
            VIOL("C13", "C13:batch-size-passed-over", "module slot %d (batch size %zu) received %zu events at once: the normal-priority event at position %zu already completed a batch", d.slot, k, n, i);
        if (p == 1 && k == 0 && !timed)
            VIOL("C13", "C13:batched-without-batching", "module slot %d has no batch size or timeout configured but received %zu events at once, event %zu of them not low-priority", d.slot, n, i);
    }
    // --- and every invocation needs a trigger
    if (last == 2) return;
    bool trigger = last == 1 && ((k == 0 && !timed) || (k > 0 && n >= k));
    if (trigger) return;
    if (!timed) {
        if (last == 0) VIOL("C13", "C13:low-priority-triggered", "handler of module slot %d invoked by a low-priority event (%zu events, no batch timeout configured)", d.slot, n);
        VIOL("C13", "C13:flushed-before-batch-size", "handler of module slot %d invoked with %zu events by a normal-priority event although the batch size is %zu and no timeout is configured", d.slot, n, k);
    }
    // only the batch time-out can have caused this invocation: it must coincide with an expiry of that timer. Decidable when the
    // loop polls promptly and is told about every ready source (blocking loop, no seam cost, no subset batches).
    bool prompt = !W->loops.empty() && W->loops.back().blocking && R->cfg.cost_ns == 0 && R->cfg.subset_p == 0 && s.batch_timer_exact && s.batch_timer_armed_at;
    if (!prompt) return;
    oracle_eval("C13.timeout-trigger-coincides-with-expiry");
    uint64_t since = R->now - s.batch_timer_armed_at;
    uint64_t period = s.batch_timeout;
    bool at_expiry = since >= period && (since % period) <= R->cfg.timer_late_ns;
    if (!at_expiry)
        VIOL("C13", last == 0 ? "C13:low-priority-triggered:not-at-timeout" : "C13:flushed-before-batch-size:not-at-timeout",
             "handler of module slot %d invoked with %zu event(s), the last of %s priority, batch size %zu, %lu ns after the batch time-out timer (period %lu ns) was armed: neither the batch size nor the time-out can have caused it",
             d.slot, n, last == 0 ? "low" : "normal", k, (unsigned long)since, (unsigned long)period);
}

// At the moment the loop goes back to polling everything it has received has been looked at: a message for a module that does not
// batch (and through no low-priority subscription) has either been handed over or is still in a mailbox pipe, unread.
void orc_c13_quiescent() {
    if (!W->quiescent_real) return;
    oracle_eval("C13.nothing-held-without-batching");
    size_t strict = 0;
    long first_id = -1; int first_slot = -1;
    for (auto &sd : W->sends) {
        if (sd.rc != 0 || sd.kind == 3 || sd.in_flush) continue;
        for (int e : sd.eligible) {
            if (sd.delivered.count(e) || sd.dead.count(e) || sd.unknown.count(e) || sd.oneshot_matched.count(e) || sd.low_matched.count(e) || has(sd.overflow, e)) continue;
            Slot &r = W->slots[e];
            if (r.st != ST_RUNNING || r.last_non_running_gseq >= sd.gseq || r.ctx_gen != W->ctx_registrations || r.pills_pending) continue;
            if (r.batch_size || r.batch_timeout || r.batch_changed_gseq >= sd.gseq) continue;
            if (!strict) { first_id = sd.id; first_slot = e; }
            strict++;
        }
    }
    if (!strict) return;
    size_t in_pipes = 0;
    for (int fd : R->k.open_fds(sim::OWN_LIB)) {
        sim::File *f = R->k.get(fd);
        if (f && f->kind == sim::F_PIPE_R && f->pipe) in_pipes += f->pipe->buf.size() / sizeof(void *);
    }
    if (strict > in_pipes)
        VIOL("C13", "C13:event-held-without-batching", "%zu message(s) for modules that do not batch (first: #%ld for slot %d) are neither delivered nor unread in a mailbox (%zu message(s) in all mailboxes) when the loop goes back to polling",
             strict, first_id, first_slot, in_pipes);
}

void orc_c13_loop_end(LoopRun &lr) {
    if (lr.poll_failure) return;
    oracle_eval("C13.nothing-lost");
    for (auto &sd : W->sends) {
        if (sd.rc != 0 || sd.kind == 3 || sd.in_flush || sd.gseq > lr.end_gseq) continue;
        for (int e : sd.eligible) {
            if (sd.delivered.count(e) || sd.dead.count(e) || sd.unknown.count(e) || sd.oneshot_matched.count(e) || has(sd.overflow, e)) continue;
            Slot &r = W->slots[e];
            if (r.st != ST_RUNNING || r.last_non_running_gseq >= sd.gseq || r.ctx_gen != W->ctx_registrations || r.pills_pending) continue;
            VIOL("C13", "C13:event-lost", "message #%ld for module slot %d (batch size %zu, timeout %lu ns) was neither delivered nor discarded by a stop when the loop returned: batching lost it",
                 sd.id, e, r.batch_size, (unsigned long)r.batch_timeout);
        }
    }
}

// =================================================================== C15
void orc_c15_api(const ApiRec &r, const Frame &f, const std::string &snap0, const std::string &snap1) {
    const std::string &n = r.name;
    // innermost callback executing when the call was made (frames still holds the callers)
    const Frame *cb = nullptr;
    for (int i = (int)W->frames.size() - 1; i >= 0; i--) if (W->frames[i].is_cb) { cb = &W->frames[i]; break; }
    bool is_ctx_call = n == "ctx_quit" || n == "ctx_tick" || n == "ctx_finalize" || n == "ctx_dereg" || n == "ctx_misc" || n == "ctx_reg" || n == "loop" || n == "dispatch";
    if (cb && is_ctx_call && (W->slots[cb->slot].flags & M_MOD_DENY_CTX) && n != "ctx_reg") {
        oracle_eval("C15.deny-ctx");
        R->ctr.probe("deny_ctx_call_attempted");
        int depth = 0;
        for (auto &fr : W->frames) if (fr.is_cb) depth++;
        if (depth > 1 || f.nested || W->c15_nested_cb_returned) R->ctr.probe("deny_ctx_call_after_nested_callback");
        bool failed = r.rc < 0 || (n == "ctx_misc" && W->c15_misc_null);
        if (!failed) {
            char sig[96];
            snprintf(sig, sizeof sig, "C15:deny-ctx-bypassed:%s%s", n.c_str(), W->c15_nested_cb_returned ? ":after-nested-callback" : "");
            VIOL("C15", sig, "context call %s made from a callback of module slot %d (M_MOD_DENY_CTX) returned %d", n.c_str(), cb->slot, r.rc);
        }
        if (snap0 != snap1 && !snap1.empty()) VIOL("C15", "C15:denied-call-had-effect:ctx", "denied context call %s changed the observable state", n.c_str());
        if (n == "ctx_quit" && !W->loops.empty() && W->loops.back().quit_requested && W->loops.back().quit_gseq >= f.gseq)
            VIOL("C15", "C15:denied-call-had-effect:quit", "denied m_ctx_quit was recorded");
    }
    int actor = r.actor >= 0 ? r.actor : r.slot;
    if (actor >= 0 && actor < (int)W->slots.size()) {
        Slot &a = W->slots[actor];
        if ((a.flags & M_MOD_DENY_PUB) && (n == "tell" || n == "pub" || n == "bcast" || n == "pill")) {
            oracle_eval("C15.deny-pub");
            if (r.rc >= 0) { char sig[64]; snprintf(sig, sizeof sig, "C15:deny-pub-bypassed:%s", n.c_str()); VIOL("C15", sig, "%s by module slot %d (M_MOD_DENY_PUB) returned %d", n.c_str(), actor, r.rc); }
            if (snap0 != snap1 && !snap1.empty()) VIOL("C15", "C15:denied-call-had-effect:pub", "denied %s changed the observable state", n.c_str());
        }
        if ((a.flags & M_MOD_DENY_SUB) && (n == "sub" || n == "unsub")) {
            oracle_eval("C15.deny-sub");
            if (r.rc == 0) { char sig[64]; snprintf(sig, sizeof sig, "C15:deny-sub-bypassed:%s", n.c_str()); VIOL("C15", sig, "%s by module slot %d (M_MOD_DENY_SUB) returned 0", n.c_str(), actor); }
            if (snap0 != snap1 && !snap1.empty()) VIOL("C15", "C15:denied-call-had-effect:sub", "denied %s changed the observable state", n.c_str());
        }
    }
    if (n == "pub" && W->c15_reserved_topic) {
        oracle_eval("C15.reserved-prefix");
        if (r.rc >= 0) VIOL("C15", "C15:reserved-topic-published", "publishing on a LIBMODULE_ topic returned %d", r.rc);
        if (snap0 != snap1 && !snap1.empty()) VIOL("C15", "C15:denied-call-had-effect:reserved", "refused publish on a reserved topic changed the observable state");
    }
    if (n == "dereg" && r.slot >= 0 && (W->slots[r.slot].flags & M_MOD_PERSIST) && W->c15_looping_at_entry && r.st_before != ST_ZOMBIE && r.st_before != ST_NONE) {
        oracle_eval("C15.persist");
        if (r.rc >= 0) VIOL("C15", "C15:persistent-module-deregistered", "m_mod_deregister of a persistent module while its context loops returned %d", r.rc);
        if (r.st_after == ST_ZOMBIE) VIOL("C15", "C15:persistent-module-deregistered", "a persistent module became ZOMBIE by a direct call while its context loops");
        if (snap0 != snap1 && !snap1.empty() && !f.nested) VIOL("C15", "C15:denied-call-had-effect:persist", "refused deregistration changed the observable state");
    }
    if (n == "reg" && r.slot >= 0) {
        oracle_eval("C15.unique-names");
        Slot &nw = W->slots[r.slot];
        // the live module holding that name when the call was made
        int holder = W->c15_name_holder;
        if (holder >= 0) {
            Slot &old = W->slots[holder];
            if (old.flags & M_MOD_ALLOW_REPLACE) {
                if (r.rc == 0 && old.st != ST_ZOMBIE) VIOL("C15", "C15:replaced-module-not-deregistered", "module slot %d replaced slot %d under name '%s' but the old one is %s", r.slot, holder, nw.name.c_str(), st_name(old.st));
                // the replacement itself must go through when nothing stands in its way: context there and open for registrations, the
                // caller allowed to use it, the old module not protected by PERSIST in a looping context, and no callback did anything meanwhile
                bool denied_ctx = cb && (W->slots[cb->slot].flags & M_MOD_DENY_CTX);
                bool persist_blocks = (old.flags & M_MOD_PERSIST) && W->c15_looping_at_entry;
                if (r.rc != 0 && f.had_ctx_at_entry && f.ctx_gen_at_entry == W->ctx_registrations && !W->ctx_finalized && !denied_ctx && !persist_blocks && f.script_ops == 0 &&
                    W->frames.empty() && old.ctx_gen == f.ctx_gen_at_entry) {
                    oracle_eval("C15.replacement-goes-through");
                    VIOL("C15", "C15:replacement-refused", "registering a module named '%s' over slot %d, which allows replacement, returned %d%s", nw.name.c_str(), holder, r.rc, W->has_ctx ? "" : " and the context is gone");
                }
            } else if (!W->has_ctx || W->ctx_finalized) {
            } else {
                bool denied_ctx = cb && (W->slots[cb->slot].flags & M_MOD_DENY_CTX);   // refused earlier, for another reason
                if (r.rc >= 0 && !f.nested) VIOL("C15", "C15:duplicate-name-accepted", "registering a second module named '%s' returned %d instead of -EEXIST", nw.name.c_str(), r.rc);
                if (r.rc != -EEXIST && !f.nested && !denied_ctx) VIOL("C15", "C15:duplicate-name-wrong-error", "registering a second module named '%s' returned %d instead of -EEXIST", nw.name.c_str(), r.rc);
                if (old.st == ST_ZOMBIE && !f.nested) VIOL("C15", "C15:non-replaceable-module-replaced", "module slot %d does not allow replacement but was deregistered by a registration of the same name", holder);
            }
        }
    }
}

// delivery of a message whose send was refused
void orc_c15_delivery(Delivery &d) {
    for (auto &e : d.evts)
        if (e.type == M_SRC_TYPE_PS && !e.system && e.send_id == -2)
            VIOL("C15", "C15:refused-send-delivered", "module slot %d received a message whose send had been refused", d.slot);
}

// =================================================================== C16
void orc_c16_delivery(Delivery &d) {
    if (!d.in_unstash) return;
    oracle_eval("C16.unstash-delivery");
    if (W->c16_expect.empty()) VIOL("C16", "C16:unexpected-unstash-delivery", "nested handler invocation without an unstash in progress");
    World::C16Expect &x = W->c16_expect.back();
    if (x.slot != d.slot) return;
    if (x.seen) VIOL("C16", "C16:unstash-two-invocations", "unstash of module slot %d invoked the handler more than once", d.slot);
    x.seen = true;
    if (d.evts.size() != x.want.size()) {
        char sig[64];
        snprintf(sig, sizeof sig, "C16:unstash-count:%s", d.evts.size() < x.want.size() ? "fewer" : "more");
        VIOL("C16", sig, "unstash handed %zu event(s) to the handler of module slot %d, expected the %zu oldest stashed ones", d.evts.size(), d.slot, x.want.size());
    }
    for (size_t i = 0; i < d.evts.size(); i++) {
        const EvtObs &e = d.evts[i];
        const StashM &w = x.want[i];
        if (e.raw != w.raw && (e.send_id != w.send_id || e.ud != w.ud || e.type != w.type))
            VIOL("C16", "C16:unstash-order", "unstash handed over a different event than the %zu-th oldest stashed one (stash order not kept)", i);
        if (e.type != w.type || e.data != w.data || e.ud != w.ud) VIOL("C16", "C16:unstash-content-changed", "a stashed event came back with different content");
    }
}
void orc_c16_run_end() {}

// =================================================================== C17
void orc_c17_delivery(Delivery &d) {
    Slot &s = W->slots[d.slot];
    oracle_eval("C17.handler-selection");
    int want = s.hstack.empty() ? 0 : s.hstack.back();
    if (d.handler != want)
        VIOL("C17", d.handler == 0 ? "C17:original-handler-instead-of-top" : want == 0 ? "C17:stale-handler-after-reset" : "C17:wrong-handler",
             "invocation of module slot %d went to handler %d, the top of its handler stack (depth %zu) is %d", d.slot, d.handler, s.hstack.size(), want);
}

// =================================================================== C18
static bool rate_limited(const std::string &n) {
    static const char *names[] = {"start", "pause", "resume", "stop", "bind", "sub", "unsub", "tell", "pub", "bcast", "pill", "become", "unbecome", "stash", "unstash",
                                  "batch_size", "batch_timeout", "src_fd", "unsrc_fd", "src_tmr", "unsrc_tmr", "src_sgn", "unsrc_sgn", "src_path", "unsrc_path", "src_pid", "unsrc_pid",
                                  "src_task", "unsrc_task", "src_thresh", "unsrc_thresh"};
    for (auto x : names) if (n == x) return true;
    return false;
}
// Token accounting from below (any campaign that sets token buckets): -EAGAIN is legitimate only when the bucket can be empty. Every
// rate-limited call made since the bucket was set that MAY have been charged counts as a token used; calls known to be refused
// before the token is taken (a sender/subscriber denied by its flags, a publish on the reserved prefix) do not. If fewer calls than
// the burst can have been charged, tokens are left (refills only add) and a refusal with -EAGAIN is wrong - a denied call was charged.
void orc_tokens_api(const ApiRec &r, const Frame &f) {
    if (!rate_limited(r.name)) return;
    int actor = r.actor >= 0 ? r.actor : r.slot;
    if (actor < 0 || actor >= (int)W->slots.size()) return;
    Slot &s = W->slots[actor];
    if (s.tb_rate == 0 || f.gseq < s.tb_set_gseq) return;
    const std::string &n = r.name;
    bool pub_call = n == "tell" || n == "pub" || n == "bcast" || n == "pill";
    bool sub_call = n == "sub" || n == "unsub";
    bool known_free = (pub_call && (s.flags & M_MOD_DENY_PUB)) || (sub_call && (s.flags & M_MOD_DENY_SUB)) || (n == "pub" && W->c15_reserved_topic);
    // calls of this module still in progress up the stack have been charged on entry already
    uint64_t in_flight = 0;
    for (auto &fr : W->frames) {
        if (fr.is_cb || fr.gseq < s.tb_set_gseq || !rate_limited(fr.name)) continue;
        int a = fr.actor >= 0 ? fr.actor : fr.slot;
        if (a == actor) in_flight++;
    }
    if (r.rc == -EAGAIN) {
        oracle_eval("tokens.refused-only-when-empty");
        if (s.tb_charged_max + in_flight < s.tb_burst && !known_free) {
            char sig[96];
            snprintf(sig, sizeof sig, "%s:refused-with-tokens-left", W->property.c_str());
            VIOL(W->property.c_str(), sig, "%s by module slot %d was refused with -EAGAIN although at most %lu of its %lu tokens can have been used since the bucket was set (calls refused for permissions or the reserved topic prefix are not charged)",
                 n.c_str(), actor, (unsigned long)(s.tb_charged_max + in_flight), (unsigned long)s.tb_burst);
        }
        return;
    }
    if (!known_free) s.tb_charged_max++;
}
void orc_c18_api(const ApiRec &r, const Frame &f, const std::string &snap0, const std::string &snap1) {
    if (!rate_limited(r.name)) return;
    int actor = r.actor >= 0 ? r.actor : r.slot;
    if (actor < 0) return;
    Slot &s = W->slots[actor];
    uint64_t now = R->now;
    if (r.rc == -EAGAIN) {
        oracle_eval("C18.refusal");
        if (s.tb_rate == 0 && !W->c18_tb_was_set_in_call) VIOL("C18", "C18:eagain-without-bucket", "%s by module slot %d was refused with -EAGAIN although it has no token bucket (never set, rate 0, or reset by a stop)", r.name.c_str(), actor);
        if (f.nested) VIOL("C18", "C18:refused-call-ran-callback", "%s refused with -EAGAIN still invoked a callback", r.name.c_str());
        if (snap0 != snap1 && !snap1.empty()) VIOL("C18", "C18:refused-call-had-effect", "%s refused with -EAGAIN changed the observable state: %s -> %s", r.name.c_str(), snap0.c_str(), snap1.c_str());
        // bounded recovery: armed here, evaluated at the module's next rate limited call
        if (s.tb_rate && s.tb_burst >= 1 && s.st == ST_RUNNING && W->ctx_looping && !s.tb_refusal_armed) { s.tb_refusal_armed = true; s.tb_refused_at = now; s.tb_refused_polls = W->real_polls; s.tb_polls_after_due = 0; }
        else if (s.tb_refusal_armed && s.tb_rate) {
            uint64_t period = 1000000000ULL / s.tb_rate;
            bool stayed = s.st == ST_RUNNING && s.last_non_running_gseq < s.tb_refused_gseq && W->ctx_looping;
            // the loop must have polled after a refill tick was due (tokens are credited when the loop processes the timer)
            // (5 polls: the kernel may pass a ready descriptor over in up to 3 consecutive polls)
            if (stayed && s.tb_polls_after_due >= 5 && s.tb_success_since_refusal == 0)
                VIOL("C18", "C18:no-refill", "module slot %d (rate %u/s) is still refused %lu ns and %lu polls after it ran out of tokens, without any successful call in between", actor, s.tb_rate,
                     (unsigned long)(now - s.tb_refused_at), (unsigned long)(W->real_polls - s.tb_refused_polls));
        }
        if (!s.tb_refused_gseq || !s.tb_refusal_armed) s.tb_refused_gseq = R->gseq;
        return;
    }
    s.tb_refusal_armed = false;   // whatever else the call returned, it got (and used up) a token
    if (r.rc != 0 || s.tb_rate == 0) return;
    if (f.gseq < s.tb_set_gseq) return;   // the call was entered (and charged) before this bucket existed: it only returns now
    // a successful token consuming call: every window of successes is bounded by burst + refills + 1
    oracle_eval("C18.rate-bound");
    if (s.tb_refusal_armed) s.tb_success_since_refusal++;
    s.tb_refusal_armed = false;
    s.tb_success_since_refusal = 0;
    s.tb_success_times.push_back(now);
    uint64_t period = 1000000000ULL / s.tb_rate;
    size_t m = s.tb_success_times.size();
    // a bucket set on a module at rest is not refilled before the module runs: until then the burst is all there is
    {
        int entered = s.enter_running_from_rest - s.tb_enter_running_at_set;
        if (r.name == "start" && r.st_before != ST_RUNNING && r.st_before != ST_PAUSED) entered -= 1;   // (this very call started it)
        if ((s.tb_st_at_set == ST_IDLE || s.tb_st_at_set == ST_STOPPED) && entered <= 0 && f.script_ops == 0 && m > s.tb_burst)
            VIOL("C18", "C18:rate-exceeded:at-rest", "module slot %d (burst %lu, bucket set while the module was not running and never run since): %zu token consuming calls succeeded, no refill can have happened", actor,
                 (unsigned long)s.tb_burst, m);
    }
    for (size_t i = 0; i < m; i++) {
        uint64_t dt = now - s.tb_success_times[i];
        // burst + whole refill periods in the window + 1 (phase of the discrete ticks) + 1 (one expiry that occurred before the
        // window may be credited inside it: refills are credited when the loop processes the timer, not when it expires)
        uint64_t allowed = s.tb_burst + dt / period + 2;
        uint64_t cnt = m - i;
        if (cnt > allowed)
            VIOL("C18", "C18:rate-exceeded", "module slot %d (rate %u/s, burst %lu): %lu token consuming calls succeeded within %lu ns, at most %lu are allowed", actor, s.tb_rate, (unsigned long)s.tb_burst,
                 (unsigned long)cnt, (unsigned long)dt, (unsigned long)allowed);
    }
}

// =================================================================== C19
static const char *SYS_T[] = {M_PS_CTX_STARTED, M_PS_CTX_STOPPED, M_PS_CTX_TICK, M_PS_MOD_STARTED, M_PS_MOD_STOPPED};

static bool subscribed_to(Slot &r, const char *topic, uint64_t before_gseq) {
    for (auto &kv : r.subs) {
        bool m = kv.first == topic || (kv.second.re_ok && regexec(&kv.second.re, topic, 0, nullptr, 0) == 0);
        if (!m) continue;
        for (auto &h : r.sub_history) if (h.second == kv.second.ud && h.gseq < before_gseq) return true;
    }
    return false;
}

// called on every observed state edge
void orc_c19_edge(int slot, int from, int to) {
    Slot &x = W->slots[slot];
    bool in_own_cb = !W->frames.empty() && W->frames.back().is_cb && W->frames.back().slot == slot;   // edge seen on entry of the module's own start/stop callback
    uint64_t end = in_own_cb ? UINT64_MAX : R->gseq;
    if (to == ST_RUNNING) x.occ_started.push_back(Slot::Occ{R->gseq, end, W->frames.size()});
    if (to == ST_PAUSED || to == ST_STOPPED || to == ST_ZOMBIE) x.occ_stopped.push_back(Slot::Occ{R->gseq, end, W->frames.size()});
    if (!on("C19")) return;
    // whatever was pending in the mailbox of a module that stops is discarded with it
    if (to == ST_STOPPED || to == ST_ZOMBIE) for (auto &o : W->c19_obls) if (o.recipient == slot) o.done = true;
    // required occurrences: actual entries into / exits from RUNNING
    const char *topic = nullptr;
    if (to == ST_RUNNING) topic = M_PS_MOD_STARTED;
    else if (from == ST_RUNNING) topic = M_PS_MOD_STOPPED;
    if (!topic) return;
    if (flush_phase_now()) return;   // emitted by a final-flush handler: may arrive in this loop run or the next (unconstrained)
    // the call (or loop phase) that causes it started with the outermost frame
    uint64_t start = W->frames.empty() ? R->gseq : W->frames.front().gseq;
    for (auto &r : W->slots) {
        if (r.idx == slot || r.ctx_gen != x.ctx_gen) continue;
        if (r.st != ST_RUNNING && r.st != ST_PAUSED) continue;
        if (r.st_gseq >= start) continue;                       // not in that state during the whole interval
        if (!subscribed_to(r, topic, start)) continue;          // subscribed during the whole interval
        W->c19_obls.push_back(World::C19Obl{r.idx, topic, slot, R->gseq, false});
    }
}

void orc_c19_loop_edge(bool started) {
    if (!on("C19")) return;
    const char *topic = started ? M_PS_CTX_STARTED : M_PS_CTX_STOPPED;
    // started: the whole interval begins with the loop/dispatch call; stopped: judged from the last poll on (the stop itself is not observable)
    uint64_t start = started ? (W->frames.empty() ? R->gseq : W->frames.front().gseq) : W->last_real_poll_gseq;
    for (auto &r : W->slots) {
        if (r.ctx_gen != W->ctx_registrations) continue;
        if (r.st != ST_RUNNING && r.st != ST_PAUSED) continue;
        if (r.st_gseq >= start) continue;
        if (!subscribed_to(r, topic, start)) continue;
        if (started) { W->c19_obls.push_back(World::C19Obl{r.idx, topic, -1, R->gseq, false}); continue; }
        // loop stopped: the notification is handed over by the final flush, i.e. before we get here
        if (r.st != ST_RUNNING || r.last_non_running_gseq >= start || r.batch_size || r.batch_timeout || r.pills_pending || !r.pending_exact) continue;
        if (W->loops.back().poll_failure) continue;
        int now = r.sys_received.count("1|-1") ? r.sys_received["1|-1"] : 0;
        oracle_eval("C19.occurrence-notified");
        if (now == r.c19_stopped_rx_at_loop_start)
            VIOL("C19", "C19:occurrence-not-notified:CTX_STOPPED", "module slot %d, subscribed to the loop-stopped notification and RUNNING since before the last poll, did not receive it when loop run %lu stopped", r.idx, (unsigned long)W->loops.back().id);
    }
}

void orc_c19_delivery(Delivery &d) {
    Slot &r = W->slots[d.slot];
    for (auto &e : d.evts) {
        if (e.type != M_SRC_TYPE_PS) continue;
        bool sys_topic = e.topic && !strncmp(e.topic, "LIBMODULE_", 10);
        if (!e.system) {
            if (sys_topic) VIOL("C19", "C19:system-topic-not-flagged", "a message on topic %s arrived without the system flag", e.topic);
            continue;
        }
        oracle_eval("C19.notification-maps-to-occurrence");
        if (e.data) VIOL("C19", "C19:system-message-with-payload", "a system notification carries a payload");
        int ti = -1;
        for (int i = 0; i < 5; i++) if (e.topic && !strcmp(e.topic, SYS_T[i])) ti = i;
        if (ti < 0) { char sig[96]; snprintf(sig, sizeof sig, "C19:unknown-system-topic"); VIOL("C19", sig, "system notification on unexpected topic '%s' handed to module slot %d", e.topic ? e.topic : "(null)", d.slot); }
        if (d.in_unstash) continue;
        char key[96];
        snprintf(key, sizeof key, "%d|%d", ti, e.sender_slot);
        int got = ++r.sys_received[key];
        sim::tr("sysmsg", d.slot, ti, e.sender_slot);
        if (ti == 2) {
            // ticks: no more often than the configured period
            if (e.sender) VIOL("C19", "C19:tick-with-sender", "a tick notification names a sender");
            if (W->ctx_tick_ns == 0 && W->ctx_tick_set_gseq < d.gseq && r.tick_times.empty() && !W->c19_tick_ever) VIOL("C19", "C19:tick-without-tick", "tick notification although no tick is configured");
            r.tick_times.push_back(R->now);
            // the period in force: a tick emitted after a re-configuration obeys the new period (the window was restarted then; ticks
            // emitted before it have been handed over already by a loop that polls promptly, see 'steady')
            uint64_t period = W->ctx_tick_ns;
            if (!period) { r.tick_times.clear(); continue; }
            // arrivals bunch up when the recipient was not RUNNING, batches its events, or the simulated node is slower than the tick:
            // the bound is asserted for a recipient RUNNING throughout, ticks of >= 1 ms, and seam calls cheaper than the tick
            bool steady = !W->loops.empty() && W->loops.back().blocking && R->cfg.subset_p == 0 &&   // a loop that polls promptly and is told about every ready source
                          W->c19_min_tick_ns >= 1000000ULL && R->cfg.cost_ns * 50 < W->c19_min_tick_ns &&   // no earlier, faster tick can have left a backlog
                          r.last_non_running_gseq < W->c19_first_tick_gseq && !r.batch_size && !r.batch_timeout && period >= 1000000ULL && R->cfg.cost_ns * 50 < period;
            if (!steady) { r.tick_times.clear(); continue; }
            size_t m = r.tick_times.size();
            for (size_t i = 0; i < m; i++) {
                uint64_t dt = R->now - r.tick_times[i];
                if (m - i > (dt + R->cfg.timer_late_ns) / period + 3)   // (the expiry being delivered, one waiting in the mailbox, one of phase)
                    VIOL("C19", "C19:ticks-too-frequent", "module slot %d received %zu tick notifications within %lu ns, the configured period is %lu ns", d.slot, m - i, (unsigned long)dt, (unsigned long)period);
            }
            continue;
        }
        // allowed occurrences since the recipient exists
        size_t allowed = 0;
        if (ti == 0 || ti == 1) {
            if (e.sender) VIOL("C19", "C19:loop-notification-with-sender", "a loop started/stopped notification names a sender");
            for (auto &l : W->loops) { (void)l; allowed++; }
        } else {
            if (e.sender_slot < 0) VIOL("C19", "C19:module-notification-without-sender", "a module %s notification does not name a known module as sender", ti == 3 ? "started" : "stopped");
            if (e.sender_slot == d.slot && false) {}
            Slot &x = W->slots[e.sender_slot];
            auto &occ = ti == 3 ? x.occ_started : x.occ_stopped;
            for (auto &o : occ) if (o.end >= r.reg_gseq) allowed++;   // (still in progress when the recipient was registered counts)
        }
        if ((size_t)got > allowed) {
            char sig[96];
            snprintf(sig, sizeof sig, "C19:notification-without-occurrence:%s", SYS_T[ti] + 10);
            VIOL("C19", sig, "module slot %d received its %d-th %s notification (sender slot %d) but only %zu such occurrence(s) happened since it was registered", d.slot, got, SYS_T[ti], e.sender_slot, allowed);
        }
        // discharge an obligation
        for (auto &o : W->c19_obls)
            if (!o.done && o.recipient == d.slot && o.topic == e.topic && o.sender == e.sender_slot) { o.done = true; break; }
    }
}

void orc_c19_loop_end(LoopRun &lr) {
    if (lr.poll_failure) {
        for (auto &o : W->c19_obls) if (o.gseq <= lr.end_gseq) o.done = true;   // a loop cut short by a polling failure owes nothing
        return;
    }
    oracle_eval("C19.occurrence-notified");
    for (auto &o : W->c19_obls) {
        if (o.done) continue;
        Slot &r = W->slots[o.recipient];
        if (o.gseq > lr.end_gseq) continue;
        // ordinary message rules: stayed RUNNING, not batching, mailbox not (possibly) full, subscription still there
        if (r.st != ST_RUNNING || r.last_non_running_gseq >= o.gseq || r.batch_size || r.batch_timeout || r.pills_pending || r.ctx_gen != W->ctx_registrations) { o.done = true; continue; }
        if (!subscribed_to(r, o.topic.c_str(), o.gseq)) { o.done = true; continue; }
        char sig[96];
        snprintf(sig, sizeof sig, "C19:occurrence-not-notified:%s", o.topic.c_str() + 10);
        VIOL("C19", sig, "module slot %d, subscribed and RUNNING throughout, never received the %s notification for the occurrence at event %lu (subject slot %d) by the end of loop run %lu",
             o.recipient, o.topic.c_str(), (unsigned long)o.gseq, o.sender, (unsigned long)lr.id);
    }
}
void orc_c19_run_end() {}
