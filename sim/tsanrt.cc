// tsanrt: the framework's own implementation of the functions clang emits for -fsanitize=thread.
// The `race` build compiles the library with -fsanitize=thread but links WITHOUT the TSan runtime:
// every instrumented memory access of library code lands here. Two uses (DESIGN.md 3.6):
//   1. pre-emption: the baton scheduler may switch threads at a shared-memory access, not only at lock calls;
//   2. a deterministic happens-before race detector: vector clocks per simulated thread, release/acquire edges
//      from the modelled mutexes / create / join / once / kernel objects / atomics, a shadow cell per 8-byte
//      granule holding the last write and the reads since; two conflicting accesses not ordered by
//      happens-before are a race, wherever they were in the serialised schedule.
// In the asan build nothing references these symbols.
#include "sim.h"
#include <cstring>
#include <unordered_map>
#include <algorithm>
#include <unistd.h>

namespace sim {

struct Acc {
    int tid = -1;
    uint32_t clk = 0;
    uint8_t off = 0, size = 0;
    bool write = false, atomic = false;
    const void *pc = nullptr;
    const void *stack[4] = {nullptr, nullptr, nullptr, nullptr};
};
struct Cell {
    Acc w;
    std::vector<Acc> reads;
};
struct RaceState {
    std::unordered_map<uintptr_t, Cell> shadow;
    std::unordered_map<uintptr_t, std::vector<uint32_t>> atomic_vc;
    std::vector<uint32_t> once_vc;
    std::vector<std::vector<const void *>> stacks;   // per simulated thread: shadow call stack
    std::vector<std::pair<uintptr_t, uintptr_t>> real_stack;   // per simulated thread: bounds of its real stack
    uint64_t accesses = 0, preempts = 0;
    Run *owner = nullptr;
};
static RaceState *RS;

static RaceState &rs() {
    if (!RS || RS->owner != R) {
        delete RS;
        RS = new RaceState();
        RS->owner = R;
    }
    return *RS;
}

static inline bool active() { return R && R->cur >= 0 && !R->killed && g_race_build; }

static void note_stack_bounds(RaceState &s, int tid) {
    if ((int)s.real_stack.size() <= tid) s.real_stack.resize(tid + 1, {0, 0});
    if (s.real_stack[tid].first) return;
    pthread_attr_t at;
    if (pthread_getattr_np(pthread_self(), &at) == 0) {
        void *base = nullptr;
        size_t sz = 0;
        pthread_attr_getstack(&at, &base, &sz);
        pthread_attr_destroy(&at);
        s.real_stack[tid] = {(uintptr_t)base, (uintptr_t)base + sz};
    } else {
        s.real_stack[tid] = {1, 1};
    }
}

static std::string symbolize(const void *pc) {
    static std::string exe;
    static uintptr_t base = 0;
    if (exe.empty()) {
        char buf[512];
        ssize_t n = readlink("/proc/self/exe", buf, sizeof buf - 1);
        exe = n > 0 ? std::string(buf, (size_t)n) : "";
        FILE *m = fopen("/proc/self/maps", "r");
        if (m) {
            char line[512];
            if (fgets(line, sizeof line, m)) base = strtoull(line, nullptr, 16);
            fclose(m);
        }
    }
    if (!pc || exe.empty()) return "?";
    char cmd[768];
    snprintf(cmd, sizeof cmd, "llvm-symbolizer-14 --obj=%s -f -s -C 0x%lx 2>/dev/null", exe.c_str(), (unsigned long)((uintptr_t)pc - base - 1));
    FILE *p = popen(cmd, "r");
    if (!p) return "?";
    char fn[256] = "?", loc[256] = "";
    if (fgets(fn, sizeof fn, p)) { fn[strcspn(fn, "\n")] = 0; }
    if (fgets(loc, sizeof loc, p)) { loc[strcspn(loc, "\n")] = 0; }
    pclose(p);
    return std::string(fn) + " (" + loc + ")";
}
static std::string fn_only(const std::string &s) { return s.substr(0, s.find(' ')); }

[[noreturn]] static void report(const Acc &a, const Acc &b, uintptr_t addr) {
    std::string sa = symbolize(a.pc), sb = symbolize(b.pc);
    std::string f1 = fn_only(sa), f2 = fn_only(sb);
    if (f2 < f1) std::swap(f1, f2);
    std::string sig = "race@" + f1 + "|" + f2;
    std::string st;
    for (int i = 0; i < 4 && b.stack[i]; i++) st += " <" + fn_only(symbolize(b.stack[i]));
    std::string st0;
    for (int i = 0; i < 4 && a.stack[i]; i++) st0 += " <" + fn_only(symbolize(a.stack[i]));
    // the property is the campaign's own: the filter installed by the engine maps it
    violation(g_race_property, sig.c_str(), "data race on %d byte(s) at %p: %s%s by thread %s in %s%s, and earlier %s%s by thread %s in %s%s, not ordered by happens-before",
              b.size, (void *)addr, b.atomic ? "atomic " : "", b.write ? "write" : "read", R->threads[b.tid]->name.c_str(), sb.c_str(), st.c_str(),
              a.atomic ? "atomic " : "", a.write ? "write" : "read", R->threads[a.tid]->name.c_str(), sa.c_str(), st0.c_str());
}

static inline bool overlap(const Acc &a, uint8_t off, uint8_t size) { return a.off < off + size && off < a.off + a.size; }

static void access(uintptr_t addr, size_t size, bool write, bool atomic, const void *pc) {
    if (!active()) return;
    RaceState &s = rs();
    Thread &t = *R->threads[R->cur];
    note_stack_bounds(s, t.id);
    auto &sb = s.real_stack[t.id];
    if (addr >= sb.first && addr < sb.second) return;   // the running thread's own stack
    s.accesses++;
    if (R->a.is_freed((const void *)addr)) {
        std::string w = symbolize(pc);
        std::string sig = "use-after-free@" + fn_only(w);
        violation(g_race_property, sig.c_str(), "%s of %zu byte(s) at %p by thread %s in %s: the memory was freed", write ? "write" : "read", size, (void *)addr, t.name.c_str(), w.c_str());
    }
    if (R->cfg.preempt_mem && !atomic && R->threads.size() > 1 && R->r_sched.chance(R->cfg.preempt_mem_p)) {
        s.preempts++;
        yield_point("mem");
        if (!active()) return;
    }
    if ((int)t.vc.size() <= t.id) t.vc.resize(t.id + 1, 0);
    if (t.vc[t.id] == 0) t.vc[t.id] = 1;
    while (size > 0) {
        uintptr_t g = addr & ~(uintptr_t)7;
        uint8_t off = (uint8_t)(addr - g);
        uint8_t n = (uint8_t)std::min<size_t>(size, 8 - off);
        Cell &c = s.shadow[g];
        Acc cur;
        cur.tid = t.id; cur.clk = t.vc[t.id]; cur.off = off; cur.size = n; cur.write = write; cur.atomic = atomic; cur.pc = pc;
        if ((int)s.stacks.size() > t.id) {
            auto &stk = s.stacks[t.id];
            for (size_t i = 0; i < 4 && i < stk.size(); i++) cur.stack[i] = stk[stk.size() - 1 - i];
        }
        auto ordered = [&](const Acc &p) { return p.tid == t.id || ((int)t.vc.size() > p.tid && t.vc[p.tid] >= p.clk); };
        if (c.w.tid >= 0 && overlap(c.w, off, n) && !(c.w.atomic && atomic) && !ordered(c.w)) report(c.w, cur, addr);
        if (write) {
            for (auto &r : c.reads) if (overlap(r, off, n) && !(r.atomic && atomic) && !ordered(r)) report(r, cur, addr);
            c.reads.erase(std::remove_if(c.reads.begin(), c.reads.end(), [&](const Acc &r) { return overlap(r, off, n); }), c.reads.end());
            c.w = cur;
        } else {
            bool found = false;
            for (auto &r : c.reads) if (r.tid == t.id && r.off == off && r.size == n) { r = cur; found = true; }
            if (!found) c.reads.push_back(cur);
        }
        addr += n;
        size -= n;
    }
}

// atomics: each location carries a clock; an atomic op acquires and releases it (sequentially consistent model)
static void atomic_sync(uintptr_t addr, bool acq, bool rel) {
    if (!active()) return;
    RaceState &s = rs();
    auto &vc = s.atomic_vc[addr];
    if (acq) hb_acquire(vc);
    if (rel) hb_release(vc);
}

void race_reset() { delete RS; RS = nullptr; }
// what a libc call does to the caller's buffer on behalf of the library (TSan's interceptors do the same): read() writes it, write() reads it
void race_range(const void *p, size_t n, bool write) {
    if (!n || !p) return;
    access((uintptr_t)p, n, write, false, __builtin_return_address(0));
}
void race_once_enter() { if (active()) hb_acquire(rs().once_vc); }
void race_once_exit() { if (active()) hb_release(rs().once_vc); }
void race_stats(uint64_t &accesses, uint64_t &preempts) {
    accesses = RS && RS->owner == R ? RS->accesses : 0;
    preempts = RS && RS->owner == R ? RS->preempts : 0;
}
// memory handed back to the allocator: later instrumented accesses are reported by the allocator's poisoning in the
// asan build; here the shadow of the block is dropped so that a new owner does not inherit its history
void race_forget(const void *p, size_t n) {
    if (!RS || RS->owner != R) return;
    for (uintptr_t g = (uintptr_t)p & ~(uintptr_t)7; g < (uintptr_t)p + n; g += 8) RS->shadow.erase(g);
}

} // namespace sim

using namespace sim;
#define PC __builtin_return_address(0)

extern "C" {
void __tsan_init() {}
void __tsan_func_entry(void *pc) {
    if (!active()) return;
    RaceState &s = rs();
    if ((int)s.stacks.size() <= R->cur) s.stacks.resize(R->cur + 1);
    s.stacks[R->cur].push_back(pc);
}
void __tsan_func_exit() {
    if (!active()) return;
    RaceState &s = rs();
    if ((int)s.stacks.size() > R->cur && !s.stacks[R->cur].empty()) s.stacks[R->cur].pop_back();
}
#define RW(n) \
    void __tsan_read##n(void *a) { access((uintptr_t)a, n, false, false, PC); } \
    void __tsan_write##n(void *a) { access((uintptr_t)a, n, true, false, PC); } \
    void __tsan_unaligned_read##n(void *a) { access((uintptr_t)a, n, false, false, PC); } \
    void __tsan_unaligned_write##n(void *a) { access((uintptr_t)a, n, true, false, PC); }
RW(1) RW(2) RW(4) RW(8) RW(16)
void __tsan_read_range(void *a, unsigned long n) { access((uintptr_t)a, n, false, false, PC); }
void __tsan_write_range(void *a, unsigned long n) { access((uintptr_t)a, n, true, false, PC); }
void __tsan_vptr_update(void **vptr, void *val) { (void)val; access((uintptr_t)vptr, 8, true, false, PC); }
void __tsan_vptr_read(void **vptr) { access((uintptr_t)vptr, 8, false, false, PC); }
void __tsan_ignore_thread_begin() {}
void __tsan_ignore_thread_end() {}

#define ATOMICS(bits, T) \
    T __tsan_atomic##bits##_load(const volatile T *a, int mo) { (void)mo; if (active()) yield_point("atomic"); access((uintptr_t)a, bits / 8, false, true, PC); atomic_sync((uintptr_t)a, true, false); return *a; } \
    void __tsan_atomic##bits##_store(volatile T *a, T v, int mo) { (void)mo; if (active()) yield_point("atomic"); access((uintptr_t)a, bits / 8, true, true, PC); atomic_sync((uintptr_t)a, true, true); *a = v; } \
    T __tsan_atomic##bits##_exchange(volatile T *a, T v, int mo) { (void)mo; if (active()) yield_point("atomic"); access((uintptr_t)a, bits / 8, true, true, PC); atomic_sync((uintptr_t)a, true, true); T o = *a; *a = v; return o; } \
    T __tsan_atomic##bits##_fetch_add(volatile T *a, T v, int mo) { (void)mo; if (active()) yield_point("atomic"); access((uintptr_t)a, bits / 8, true, true, PC); atomic_sync((uintptr_t)a, true, true); T o = *a; *a = (T)(o + v); return o; } \
    T __tsan_atomic##bits##_fetch_sub(volatile T *a, T v, int mo) { (void)mo; if (active()) yield_point("atomic"); access((uintptr_t)a, bits / 8, true, true, PC); atomic_sync((uintptr_t)a, true, true); T o = *a; *a = (T)(o - v); return o; } \
    T __tsan_atomic##bits##_fetch_and(volatile T *a, T v, int mo) { (void)mo; if (active()) yield_point("atomic"); access((uintptr_t)a, bits / 8, true, true, PC); atomic_sync((uintptr_t)a, true, true); T o = *a; *a = (T)(o & v); return o; } \
    T __tsan_atomic##bits##_fetch_or(volatile T *a, T v, int mo) { (void)mo; if (active()) yield_point("atomic"); access((uintptr_t)a, bits / 8, true, true, PC); atomic_sync((uintptr_t)a, true, true); T o = *a; *a = (T)(o | v); return o; } \
    T __tsan_atomic##bits##_fetch_xor(volatile T *a, T v, int mo) { (void)mo; if (active()) yield_point("atomic"); access((uintptr_t)a, bits / 8, true, true, PC); atomic_sync((uintptr_t)a, true, true); T o = *a; *a = (T)(o ^ v); return o; } \
    int __tsan_atomic##bits##_compare_exchange_strong(volatile T *a, T *c, T v, int mo, int fmo) { (void)mo; (void)fmo; if (active()) yield_point("atomic"); access((uintptr_t)a, bits / 8, true, true, PC); atomic_sync((uintptr_t)a, true, true); if (*a == *c) { *a = v; return 1; } *c = *a; return 0; } \
    int __tsan_atomic##bits##_compare_exchange_weak(volatile T *a, T *c, T v, int mo, int fmo) { (void)mo; (void)fmo; if (active()) yield_point("atomic"); access((uintptr_t)a, bits / 8, true, true, PC); atomic_sync((uintptr_t)a, true, true); if (*a == *c) { *a = v; return 1; } *c = *a; return 0; }
ATOMICS(8, uint8_t) ATOMICS(16, uint16_t) ATOMICS(32, uint32_t) ATOMICS(64, uint64_t)
void __tsan_atomic_thread_fence(int mo) { (void)mo; }
void __tsan_atomic_signal_fence(int mo) { (void)mo; }
}
