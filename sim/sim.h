// libsim: deterministic scheduler, discrete-event clock, simulated kernel, allocator.
// Everything here is driven by one seed (Config::seed); see DESIGN.md section 3.
#pragma once
#include <cstdint>
#include <cstdarg>
#include <cstdio>
#include <string>
#include <vector>
#include <map>
#include <set>
#include <deque>
#include <memory>
#include <functional>
#include <pthread.h>
#include <semaphore.h>
#include "prng.h"

namespace sim {

// ---------------------------------------------------------------- config
enum SchedKind { S_RANDOM = 0, S_PCT = 1, S_RR = 2, S_RTB = 3 };

struct Config {
    uint64_t seed = 1;
    int sched = S_RTB;
    double switch_p = 0.3;        // S_RANDOM: probability of switching at a yield
    int pct_depth = 2;            // S_PCT: number of priority change points + 1
    int rr_quantum = 3;           // S_RR
    uint64_t cost_ns = 0;         // each seam call costs uniform 0..cost_ns
    uint64_t timer_late_ns = 0;   // timer expiry reported late by uniform 0..timer_late_ns
    double subset_p = 0.0;        // epoll_wait returns a strict subset of the ready set
    bool shuffle_batch = true;    // epoll_wait returns ready set in random order
    double eintr_p = 0.0;         // blocking epoll_wait returns EINTR
    double spurious_p = 0.0;      // cond_wait returns spuriously
    uint64_t max_waits = 400;     // horizon: number of epoll_wait calls
    uint64_t max_steps = 400000;  // horizon: scheduler steps
    uint64_t max_time_ns = 200ULL * 1000000000ULL;
    bool preempt_mem = false;     // race build: yield at instrumented memory accesses
    double preempt_mem_p = 0.05;
    bool trace = false;           // print trace as it is recorded
};

// ---------------------------------------------------------------- fault / probe counters
struct Counters {
    std::map<std::string, uint64_t> faults;   // fault kinds that actually fired
    std::map<std::string, uint64_t> probes;   // rare-condition probes
    void fault(const char *k, uint64_t n = 1) { faults[k] += n; }
    void probe(const char *k, uint64_t n = 1) { probes[k] += n; }
};

// ---------------------------------------------------------------- threads
struct Thread {
    int id = 0;
    pthread_t real{};
    sem_t sem;
    enum State { NEW, RUNNABLE, BLOCKED, DONE } st = NEW;
    enum Why { W_NONE, W_MUTEX, W_COND, W_JOIN, W_EPOLL, W_SLEEP, W_PARK } why = W_NONE;
    const void *obj = nullptr;   // mutex / cond address
    int join_target = -1;
    int epfd = -1;
    uint64_t wake_at = 0;        // absolute sim time; 0 = none
    bool timed_out = false;
    bool inject_fail = false;    // epoll wait must fail (horizon / nothing can ever happen)
    bool detached = false;
    bool joined = false;
    bool started = false;
    void *(*fn)(void *) = nullptr;
    void *arg = nullptr;
    void *ret = nullptr;
    int prio = 0;
    int quantum = 0;
    std::string name;
    bool own_stream = false;     // kernel choices for this thread's polls come from its own random stream (C14 independence)
    Rng r_own;
    // race detector state (tsanrt)
    std::vector<uint32_t> vc;
    std::vector<const char *> shadow_stack;
};

struct MutexState {
    int owner = -1;
    bool inited = false;
    bool destroyed = false;
    std::vector<uint32_t> vc;   // release clock (race build)
};
struct CondState {
    bool inited = false;
    bool destroyed = false;
    std::vector<int> waiters;
    std::vector<uint32_t> vc;
};

// ---------------------------------------------------------------- kernel objects
enum FileKind { F_STD, F_PIPE_R, F_PIPE_W, F_EVENTFD, F_TIMERFD, F_SIGNALFD, F_INOTIFY, F_PIDFD, F_EPOLL };
enum Owner { OWN_USER = 0, OWN_LIB = 1 };

struct Pipe {
    std::deque<uint8_t> buf;
    size_t capacity = 65536;
    int readers = 0, writers = 0;
    std::vector<uint32_t> vc;
};

struct File;
struct EpollReg {
    int fd;
    uint64_t file_id;
    std::weak_ptr<File> wf;
    uint32_t events;
    uint64_t data;
    bool disarmed = false;
    int passed_over = 0;
    uint64_t reg_seq = 0;
};

struct File {
    uint64_t id = 0;
    FileKind kind = F_STD;
    int flags = 0;                // O_NONBLOCK etc
    int refs = 0;                 // number of fd numbers referring to this description
    std::shared_ptr<Pipe> pipe;
    // eventfd
    uint64_t counter = 0;
    // timerfd (times are on the base sim clock, ns)
    int clockid = 0;
    bool armed = false;
    uint64_t expire_at = 0, interval = 0, late = 0;
    bool abs_realtime = false;
    uint64_t abs_value = 0;
    // signalfd
    uint64_t sigmask = 0;
    // inotify
    std::vector<std::pair<int, std::string>> watches;  // wd, path
    std::deque<std::pair<uint32_t, std::string>> inq;   // mask, name
    // pidfd
    int pid = 0;
    // epoll
    std::vector<EpollReg> regs;
    std::vector<uint32_t> vc;
};

struct FdEntry {
    std::shared_ptr<File> file;
    bool cloexec = false;
    Owner owner = OWN_USER;
    uint64_t open_gseq = 0;
};

// kernel log records consumed by oracles
struct CloseRec { uint64_t gseq; int fd; Owner by; bool was_open; Owner fd_owner; FileKind kind; uint64_t file_id; };
struct OpenRec { uint64_t gseq; int fd; Owner by; FileKind kind; uint64_t file_id; };
struct BatchItem { int fd; uint64_t file_id; uint64_t data; bool oneshot; };
struct BatchRec { uint64_t gseq; int epfd; std::vector<BatchItem> items; int ready_total; };
struct IoRec { uint64_t gseq; int fd; uint64_t file_id; bool is_write; Owner by; long ret; int err; FileKind kind; };

struct Kernel {
    std::vector<FdEntry> fds;     // index = fd number; file==nullptr -> closed
    uint64_t next_file_id = 1;
    uint64_t pending_signals = 0;
    std::set<int> live_pids;      // pids the environment says exist
    std::set<int> exited_pids;
    std::set<int> reaped_pids;    // exited and waited for: pidfd_open fails with ESRCH
    int64_t realtime_offset_ns = 1700000000LL * 1000000000LL;
    std::vector<CloseRec> closes;
    std::vector<OpenRec> opens;
    std::vector<BatchRec> batches;
    std::vector<IoRec> ios;
    bool log_io = true;
    uint64_t epoll_waits = 0;
    bool poll_failure_injected = false;
    int sigpipe_count = 0;
    std::function<void()> on_epoll_wait;   // harness hook: the quiescent point (no callback running)

    void reset();
    int alloc_fd(std::shared_ptr<File> f, Owner by);
    File *get(int fd);
    bool is_open(int fd) const { return fd >= 0 && (size_t)fd < fds.size() && fds[fd].file; }
    bool readable(File *f);
    // syscalls; "by" records who issued the call
    int k_pipe(int out[2], Owner by);
    int k_open_plain(Owner by);   // a regular file: readable/writable, but epoll refuses it (EPERM)
    int k_close(int fd, Owner by);
    int k_dup(int fd, Owner by);
    int k_fcntl(int fd, int cmd, long arg, Owner by);
    long k_read(int fd, void *buf, size_t n, Owner by);
    long k_write(int fd, const void *buf, size_t n, Owner by);
    int k_eventfd(unsigned init, int flags, Owner by);
    int k_timerfd_create(int clockid, int flags, Owner by);
    int k_timerfd_settime(int fd, int flags, uint64_t value_ns, uint64_t interval_ns, Owner by);
    int k_signalfd(int fd, uint64_t mask, int flags, Owner by);
    int k_inotify_init(int flags, Owner by);
    int k_inotify_add_watch(int fd, const char *path, uint32_t mask, Owner by);
    int k_pidfd_open(int pid, Owner by);
    int k_epoll_create(int flags, Owner by);
    int k_epoll_ctl(int epfd, int op, int fd, uint32_t events, uint64_t data, Owner by);
    int k_epoll_wait(int epfd, void *events, int maxevents, int timeout_ms, Owner by);
    // environment actions
    void env_raise_signal(int signo);
    void env_pid_exit(int pid);
    void env_pid_reap(int pid);
    void env_touch(const char *path, uint32_t mask, bool with_name);
    void env_clock_step(int64_t delta_ns);
    // time
    bool timer_ready_between(uint64_t prev, uint64_t now);
    std::vector<std::shared_ptr<File>> all_files();
    uint64_t next_timer_event();   // earliest sim time at which some armed timerfd becomes readable, 0 = none
    size_t open_count(Owner o) const;
    std::vector<int> open_fds(Owner o) const;
};

// ---------------------------------------------------------------- allocator
struct Block { size_t size; uint64_t gseq; bool freed; uint64_t free_gseq; int tag; };
struct Alloc {
    std::map<uintptr_t, Block> blocks;   // by address (live + quarantined)
    uint64_t n_alloc = 0, n_free = 0;
    long fail_at = -1;                   // fail the k-th allocation from now (0 = next), -1 = never
    uint64_t failed = 0;
    int cur_tag = 0;                     // harness may tag allocations (e.g. "payload")
    std::function<void(void *p, bool twice, int tag)> on_bad_free;   // harness classifier, called before the generic violation
    void reset();
    void *do_malloc(size_t n, bool zero);
    void do_free(void *p);
    size_t outstanding() const { return n_alloc - n_free; }
    const Block *find(const void *p) const;       // block containing p (live or freed), or null
    const Block *find_incl(const void *p) const;  // same, but a one-past-the-end pointer also counts
    bool is_live(const void *p) const { auto b = find(p); return b && !b->freed; }
    bool is_freed(const void *p) const { auto b = find(p); return b && b->freed; }
    std::vector<std::pair<uintptr_t, Block>> live_blocks() const;
    void release_all();                  // end of run: really free everything
};

// ---------------------------------------------------------------- the run
struct Ev { uint64_t gseq; uint64_t t; const char *kind; long a, b, c; };

struct Run {
    Config cfg;
    Rng r_sched, r_epoll, r_clock, r_fault;
    std::vector<std::unique_ptr<Thread>> threads;
    int cur = -1;
    uint64_t now = 1000000000ULL;   // monotonic sim time, ns
    uint64_t gseq = 0;
    uint64_t steps = 0;
    uint64_t switches = 0;
    uint64_t fp = 0x12345;          // schedule fingerprint
    bool finishing = false;         // driver finished; draining leftover threads
    bool killed = false;            // run over: parked threads must exit
    bool horizon_hit = false;
    long regex_live = 0;            // regcomp() successes minus regfree() calls made by the library
    long fail_create_at = -1;       // fault: the k-th pthread_create issued by the library from now fails (EAGAIN)
    std::map<const void *, MutexState> mutexes;
    std::map<const void *, CondState> conds;
    std::vector<uint64_t> pct_change_points;
    Kernel k;
    Alloc a;
    Counters ctr;
    std::vector<Ev> trace;
    std::vector<std::pair<uint64_t, std::function<void()>>> timed;  // environment events (time, action), kept sorted
    uint64_t timed_seq = 0;
    std::function<void(const char *prop, const char *sig, const char *detail)> on_violation;
    std::function<void(int tid, const void *mutex)> on_mutex_acquired;   // harness hook: a simulated thread now owns a mutex (lock or cond_wait return)
    sem_t done_sem;
};

extern Run *R;   // the run in progress (one per process at a time)

// trace + fingerprint
void tr(const char *kind, long a = 0, long b = 0, long c = 0);
void fp_mix(uint64_t v);

// violation: never returns
[[noreturn]] void violation(const char *prop, const char *sig, const char *fmt, ...) __attribute__((format(printf, 3, 4)));

// run control
void run_begin(const Config &cfg);
// runs fn as simulated thread 0; returns when thread 0 finished and all other threads are done or blocked forever
void run_main(std::function<void()> fn);
void run_end();

// scheduling API for harness code
int  thread_create(void *(*fn)(void *), void *arg, bool detached, const char *name);
void thread_join(int tid);
void yield_point(const char *what);
void sleep_ns(uint64_t ns);
bool advance_idle();                // driver (dispatch mode): let time pass until the next event; false if nothing can ever happen
bool wait_kernel_event();           // driver (dispatch mode): block like a poll would; false if nothing can ever happen
void park();                        // block until unpark(tid)
void unpark(int tid);
int  self_id();
bool all_others_done();
void at_time(uint64_t t, std::function<void()> fn);   // schedule environment action
uint64_t next_event_time();         // 0 if none

// pthread model (called from the seam layer)
int mutex_init(const void *m);
int mutex_destroy(const void *m);
int mutex_lock(const void *m);
int mutex_unlock(const void *m);
int cond_init(const void *c);
int cond_destroy(const void *c);
int cond_wait(const void *c, const void *m);
int cond_signal(const void *c);
int cond_broadcast(const void *c);
int epoll_block(int epfd, uint64_t wake_at);   // 0 woken, 1 timed out, 2 injected failure
void kernel_changed();                          // readiness may have changed: wake epoll waiters

// race-detector hooks (no-ops in the asan build)
void hb_release(std::vector<uint32_t> &vc);
void hb_acquire(const std::vector<uint32_t> &vc);
extern bool g_race_build;
extern const char *g_race_property;   // property a detected race is reported under (the campaign's own)
void race_range(const void *p, size_t n, bool write);   // a seam call touches the library's buffer
void race_reset();                    // a new run starts: forget every shadow cell
void race_once_enter();               // pthread_once: callers that did not run the routine acquire ...
void race_once_exit();                // ... what the one that ran it released
void race_stats(uint64_t &accesses, uint64_t &preempts);
void set_own_stream(int logical_id);  // current thread: draw its poll choices from a stream named by logical_id
Rng &epoll_rng();

} // namespace sim
