// The seam layer: every libc / pthread entry point referenced by libmodule's objects is renamed
// (objcopy --redefine-syms) to one of these sk_* functions. Calls arriving here are by
// definition made by the library (Owner = OWN_LIB); the harness talks to sim::Kernel directly.
#include "sim.h"
#include <cerrno>
#include <cstring>
#include <cstdarg>
#include <csignal>
#include <ctime>
#include <fcntl.h>
#include <unistd.h>
#include <sys/epoll.h>
#include <sys/timerfd.h>
#include <sys/syscall.h>
#include <regex.h>

using namespace sim;

static uint64_t g_swallowed_log_lines = 0;

extern "C" {

int sk_clock_gettime(clockid_t id, struct timespec *ts) {
    yield_point("clock_gettime");
    uint64_t t = R->now;
    if (id == CLOCK_REALTIME) t = (uint64_t)((int64_t)R->now + R->k.realtime_offset_ns);
    ts->tv_sec = (time_t)(t / 1000000000ULL);
    ts->tv_nsec = (long)(t % 1000000000ULL);
    return 0;
}

int sk_close(int fd) { yield_point("close"); return R->k.k_close(fd, OWN_LIB); }
int sk_dup(int fd) { yield_point("dup"); return R->k.k_dup(fd, OWN_LIB); }
int sk_pipe(int fds[2]) { yield_point("pipe"); return R->k.k_pipe(fds, OWN_LIB); }
ssize_t sk_read(int fd, void *buf, size_t n) {
    yield_point("read");
    ssize_t r = R->k.k_read(fd, buf, n, OWN_LIB);
    if (r > 0) { int e = errno; race_range(buf, (size_t)r, true); errno = e; }
    return r;
}
ssize_t sk_write(int fd, const void *buf, size_t n) {
    yield_point("write");
    if (n) race_range(buf, n, false);
    return R->k.k_write(fd, buf, n, OWN_LIB);
}

int sk_fcntl(int fd, int cmd, ...) {
    va_list ap;
    va_start(ap, cmd);
    long arg = va_arg(ap, long);
    va_end(ap);
    return R->k.k_fcntl(fd, cmd, arg, OWN_LIB);
}

int sk_epoll_create1(int flags) { yield_point("epoll_create1"); return R->k.k_epoll_create(flags, OWN_LIB); }
int sk_epoll_ctl(int epfd, int op, int fd, struct epoll_event *ev) {
    yield_point("epoll_ctl");
    return R->k.k_epoll_ctl(epfd, op, fd, ev ? ev->events : 0, ev ? ev->data.u64 : 0, OWN_LIB);
}
int sk_epoll_wait(int epfd, struct epoll_event *evs, int maxevents, int timeout) {
    return R->k.k_epoll_wait(epfd, evs, maxevents, timeout, OWN_LIB);
}
int sk_eventfd(unsigned init, int flags) { yield_point("eventfd"); return R->k.k_eventfd(init, flags, OWN_LIB); }
int sk_timerfd_create(int clockid, int flags) { yield_point("timerfd_create"); return R->k.k_timerfd_create(clockid, flags, OWN_LIB); }
int sk_timerfd_settime(int fd, int flags, const struct itimerspec *nv, struct itimerspec *ov) {
    (void)ov;
    yield_point("timerfd_settime");
    uint64_t v = (uint64_t)nv->it_value.tv_sec * 1000000000ULL + (uint64_t)nv->it_value.tv_nsec;
    uint64_t i = (uint64_t)nv->it_interval.tv_sec * 1000000000ULL + (uint64_t)nv->it_interval.tv_nsec;
    return R->k.k_timerfd_settime(fd, flags, v, i, OWN_LIB);
}
int sk_signalfd(int fd, const sigset_t *mask, int flags) {
    yield_point("signalfd");
    uint64_t m = 0;
    for (int s = 1; s < 64; s++) if (sigismember(mask, s) == 1) m |= 1ULL << s;
    return R->k.k_signalfd(fd, m, flags, OWN_LIB);
}
int sk_sigprocmask(int how, const sigset_t *set, sigset_t *old) {
    (void)how; (void)set; (void)old;
    tr("sigprocmask");
    return 0;   // recorded only: the real process mask is not touched
}
int sk_inotify_init1(int flags) { yield_point("inotify_init1"); return R->k.k_inotify_init(flags, OWN_LIB); }
int sk_inotify_add_watch(int fd, const char *path, uint32_t mask) { return R->k.k_inotify_add_watch(fd, path, mask, OWN_LIB); }

long sk_syscall(long nr, ...) {
    va_list ap;
    va_start(ap, nr);
    long a1 = va_arg(ap, long);
    va_end(ap);
    yield_point("syscall");
    if (nr == SYS_pidfd_open) return R->k.k_pidfd_open((int)a1, OWN_LIB);
    errno = ENOSYS;
    return -1;
}

// ---- pthread model
int sk_pthread_create(pthread_t *th, const pthread_attr_t *attr, void *(*fn)(void *), void *arg) {
    int ds = PTHREAD_CREATE_JOINABLE;
    if (attr) pthread_attr_getdetachstate(attr, &ds);
    if (R->fail_create_at >= 0 && R->fail_create_at-- == 0) {
        R->ctr.fault("pthread_create_fail");
        tr("pthread_create_fail");
        return EAGAIN;
    }
    int tid = thread_create(fn, arg, ds == PTHREAD_CREATE_DETACHED, "lib");
    *th = (pthread_t)(tid + 1000);
    yield_point("pthread_create");
    return 0;
}
int sk_pthread_join(pthread_t th, void **ret) {
    int tid = (int)th - 1000;
    thread_join(tid);
    if (ret) *ret = R->threads[tid]->ret;
    return 0;
}
// pthread_once is the real one (process-wide, like the key it guards); the race detector learns the edge
static void (*g_once_fn)(void);
static bool g_once_ran;
static void once_tramp(void) { g_once_ran = true; g_once_fn(); }
int sk_pthread_once(pthread_once_t *o, void (*fn)(void)) {
    g_once_fn = fn;
    g_once_ran = false;
    int rc = pthread_once(o, once_tramp);
    if (g_once_ran) race_once_exit(); else race_once_enter();
    return rc;
}
int sk_pthread_mutex_init(pthread_mutex_t *m, const pthread_mutexattr_t *a) { (void)a; return mutex_init(m); }
int sk_pthread_mutex_destroy(pthread_mutex_t *m) { return mutex_destroy(m); }
int sk_pthread_mutex_lock(pthread_mutex_t *m) { return mutex_lock(m); }
int sk_pthread_mutex_unlock(pthread_mutex_t *m) { return mutex_unlock(m); }
int sk_pthread_cond_init(pthread_cond_t *c, const pthread_condattr_t *a) { (void)a; return cond_init(c); }
int sk_pthread_cond_destroy(pthread_cond_t *c) { return cond_destroy(c); }
int sk_pthread_cond_wait(pthread_cond_t *c, pthread_mutex_t *m) { return cond_wait(c, m); }
int sk_pthread_cond_signal(pthread_cond_t *c) { return cond_signal(c); }
int sk_pthread_cond_broadcast(pthread_cond_t *c) { return cond_broadcast(c); }

// ---- compiled regular expressions live in libc's heap, not behind the memhook: counted here so that conservation covers them
int sk_regcomp(regex_t *re, const char *pattern, int cflags) {
    int rc = regcomp(re, pattern, cflags);
    if (rc == 0) R->regex_live++;
    return rc;
}
void sk_regfree(regex_t *re) {
    R->regex_live--;
    regfree(re);
}

// ---- things that are out of scope: plugin loading always fails, logging is swallowed
void *sk_dlopen(const char *name, int flags) { (void)name; (void)flags; return nullptr; }
char *sk_dlerror(void) { return (char *)"simulated: dlopen unavailable"; }
void *sk_dlsym(void *h, const char *n) { (void)h; (void)n; return nullptr; }
int sk_dlclose(void *h) { (void)h; return 0; }
int sk_printf(const char *fmt, ...) { (void)fmt; g_swallowed_log_lines++; return 0; }
int sk_vprintf(const char *fmt, va_list ap) { (void)fmt; (void)ap; g_swallowed_log_lines++; return 0; }
int sk_fprintf(FILE *f, const char *fmt, ...) { (void)f; (void)fmt; g_swallowed_log_lines++; return 0; }
int sk_vfprintf(FILE *f, const char *fmt, va_list ap) { (void)f; (void)fmt; (void)ap; g_swallowed_log_lines++; return 0; }

} // extern "C"
