// Simulated Linux kernel objects used by libmodule's epoll back end: descriptor table with
// lowest-free numbering, pipes, eventfd, timerfd, signalfd, inotify, pidfd, epoll.
#include "sim.h"
#include <cerrno>
#include <cstring>
#include <algorithm>
#include <fcntl.h>
#include <sys/epoll.h>
#include <sys/timerfd.h>
#include <sys/signalfd.h>
#include <sys/inotify.h>
#include <sys/eventfd.h>
#include <time.h>

namespace sim {

static inline Owner who(Owner by) { return by; }

void Kernel::reset() {
    fds.clear();
    for (int i = 0; i < 3; i++) {
        auto f = std::make_shared<File>();
        f->id = next_file_id++;
        f->kind = F_STD;
        f->refs = 1;
        FdEntry e;
        e.file = f;
        e.owner = OWN_USER;
        fds.push_back(e);
    }
    live_pids = {100, 101, 102, 103, 104, 105, 106, 107};
}

int Kernel::alloc_fd(std::shared_ptr<File> f, Owner by) {
    size_t i = 0;
    for (; i < fds.size(); i++) if (!fds[i].file) break;
    if (i == fds.size()) fds.push_back(FdEntry());
    if (i >= 60000) { errno = EMFILE; return -1; }
    fds[i].file = f;
    fds[i].cloexec = false;
    fds[i].owner = by;
    fds[i].open_gseq = R->gseq;
    f->refs++;
    opens.push_back(OpenRec{R->gseq, (int)i, by, f->kind, f->id});
    tr("k_open", (long)i, f->kind, by);
    return (int)i;
}

File *Kernel::get(int fd) {
    if (fd < 0 || (size_t)fd >= fds.size()) return nullptr;
    return fds[fd].file.get();
}

std::vector<std::shared_ptr<File>> Kernel::all_files() {
    std::vector<std::shared_ptr<File>> out;
    std::set<uint64_t> seen;
    for (auto &e : fds) if (e.file && seen.insert(e.file->id).second) out.push_back(e.file);
    return out;
}

static uint64_t readable_at(const File *f) { return f->expire_at + f->late; }

bool Kernel::readable(File *f) {
    switch (f->kind) {
    case F_PIPE_R: return !f->pipe->buf.empty();
    case F_EVENTFD: return f->counter > 0;
    case F_TIMERFD: return f->armed && R->now >= readable_at(f);
    case F_SIGNALFD: return (pending_signals & f->sigmask) != 0;
    case F_INOTIFY: return !f->inq.empty();
    case F_PIDFD: return exited_pids.count(f->pid) > 0 || reaped_pids.count(f->pid) > 0;
    default: return false;
    }
}

bool Kernel::timer_ready_between(uint64_t prev, uint64_t now) {
    for (auto &e : fds)
        if (e.file && e.file->kind == F_TIMERFD && e.file->armed) {
            uint64_t t = readable_at(e.file.get());
            if (t > prev && t <= now) return true;
        }
    return false;
}

uint64_t Kernel::next_timer_event() {
    uint64_t best = 0;
    for (auto &e : fds)
        if (e.file && e.file->kind == F_TIMERFD && e.file->armed) {
            uint64_t t = readable_at(e.file.get());
            if (t > R->now && (!best || t < best)) best = t;
        }
    return best;
}

size_t Kernel::open_count(Owner o) const {
    size_t n = 0;
    for (size_t i = 3; i < fds.size(); i++) if (fds[i].file && fds[i].owner == o) n++;
    return n;
}
std::vector<int> Kernel::open_fds(Owner o) const {
    std::vector<int> v;
    for (size_t i = 3; i < fds.size(); i++) if (fds[i].file && fds[i].owner == o) v.push_back((int)i);
    return v;
}

int Kernel::k_pipe(int out[2], Owner by) {
    auto p = std::make_shared<Pipe>();
    auto r = std::make_shared<File>();
    r->id = next_file_id++; r->kind = F_PIPE_R; r->pipe = p;
    auto w = std::make_shared<File>();
    w->id = next_file_id++; w->kind = F_PIPE_W; w->pipe = p;
    p->readers = 1; p->writers = 1;
    out[0] = alloc_fd(r, by);
    out[1] = alloc_fd(w, by);
    return 0;
}

int Kernel::k_open_plain(Owner by) {
    auto f = std::make_shared<File>();
    f->id = next_file_id++;
    f->kind = F_STD;
    return alloc_fd(f, by);
}

int Kernel::k_close(int fd, Owner by) {
    File *f = get(fd);
    CloseRec rec{R->gseq, fd, by, f != nullptr, f ? fds[fd].owner : OWN_USER, f ? f->kind : F_STD, f ? f->id : 0};
    closes.push_back(rec);
    tr("k_close", fd, by, f ? 1 : 0);
    if (!f) { errno = EBADF; return -1; }
    std::shared_ptr<File> keep = fds[fd].file;
    fds[fd] = FdEntry();
    keep->refs--;
    if (keep->refs == 0) {
        if (keep->kind == F_PIPE_R) keep->pipe->readers--;
        if (keep->kind == F_PIPE_W) keep->pipe->writers--;
        // closing the last descriptor of a description removes it from every interest list
        for (auto &e : fds)
            if (e.file && e.file->kind == F_EPOLL) {
                auto &regs = e.file->regs;
                regs.erase(std::remove_if(regs.begin(), regs.end(), [&](const EpollReg &r) { return r.file_id == keep->id; }), regs.end());
            }
    }
    kernel_changed();
    return 0;
}

int Kernel::k_dup(int fd, Owner by) {
    File *f = get(fd);
    if (!f) { errno = EBADF; return -1; }
    return alloc_fd(fds[fd].file, by);
}

int Kernel::k_fcntl(int fd, int cmd, long arg, Owner by) {
    (void)by;
    File *f = get(fd);
    if (!f) { errno = EBADF; return -1; }
    switch (cmd) {
    case F_GETFL: return f->flags | (f->kind == F_PIPE_W ? O_WRONLY : O_RDONLY);
    case F_SETFL: f->flags = (int)arg & (O_NONBLOCK | O_APPEND); return 0;
    case F_GETFD: return fds[fd].cloexec ? FD_CLOEXEC : 0;
    case F_SETFD: fds[fd].cloexec = (arg & FD_CLOEXEC) != 0; return 0;
    default: errno = EINVAL; return -1;
    }
}

long Kernel::k_read(int fd, void *buf, size_t n, Owner by) {
    File *f = get(fd);
    long ret = -1;
    int err = 0;
    FileKind kind = f ? f->kind : F_STD;
    uint64_t fid = f ? f->id : 0;
    if (!f) { err = EBADF; }
    else switch (f->kind) {
    case F_PIPE_R: {
        auto &b = f->pipe->buf;
        if (b.empty()) { if (f->pipe->writers == 0) ret = 0; else err = EAGAIN; break; }
        size_t k = std::min(n, b.size());
        for (size_t i = 0; i < k; i++) { ((uint8_t *)buf)[i] = b.front(); b.pop_front(); }
        hb_acquire(f->pipe->vc);
        ret = (long)k;
        break;
    }
    case F_EVENTFD:
        if (n < 8) { err = EINVAL; break; }
        if (f->counter == 0) { err = EAGAIN; break; }
        memcpy(buf, &f->counter, 8);
        f->counter = 0;
        hb_acquire(f->vc);
        ret = 8;
        break;
    case F_TIMERFD: {
        if (n < 8) { err = EINVAL; break; }
        if (!readable(f)) { err = EAGAIN; break; }
        uint64_t cnt = 1;
        if (f->interval) {
            cnt += (R->now - f->expire_at) / f->interval;
            f->expire_at += cnt * f->interval;
            f->late = R->cfg.timer_late_ns ? R->r_clock.below(R->cfg.timer_late_ns + 1) : 0;
            if (f->late) R->ctr.fault("timer_late");
        } else {
            f->armed = false;
        }
        memcpy(buf, &cnt, 8);
        ret = 8;
        break;
    }
    case F_SIGNALFD: {
        if (n < sizeof(struct signalfd_siginfo)) { err = EINVAL; break; }
        uint64_t m = pending_signals & f->sigmask;
        if (!m) { err = EAGAIN; break; }
        int signo = __builtin_ctzll(m);
        pending_signals &= ~(1ULL << signo);
        struct signalfd_siginfo si;
        memset(&si, 0, sizeof si);
        si.ssi_signo = signo;
        memcpy(buf, &si, sizeof si);
        ret = sizeof si;
        break;
    }
    case F_INOTIFY: {
        if (f->inq.empty()) { err = EAGAIN; break; }
        auto ev = f->inq.front();
        size_t nlen = ev.second.empty() ? 0 : ((ev.second.size() + 1 + 15) & ~15UL);
        size_t need = sizeof(struct inotify_event) + nlen;
        if (n < need) { err = EINVAL; break; }
        f->inq.pop_front();
        struct inotify_event ie;
        memset(&ie, 0, sizeof ie);
        ie.wd = 1;
        ie.mask = ev.first;
        ie.len = (uint32_t)nlen;
        memset(buf, 0, need);
        memcpy(buf, &ie, sizeof ie);
        if (nlen) memcpy((char *)buf + sizeof ie, ev.second.c_str(), ev.second.size());
        ret = (long)need;
        break;
    }
    case F_PIPE_W: err = EBADF; break;   // not open for reading
    default: err = EINVAL; break;
    }
    if (log_io) ios.push_back(IoRec{R->gseq, fd, fid, false, by, ret, err, kind});
    tr("k_read", fd, ret, err);
    if (ret < 0) errno = err;
    return ret;
}

long Kernel::k_write(int fd, const void *buf, size_t n, Owner by) {
    File *f = get(fd);
    long ret = -1;
    int err = 0;
    FileKind kind = f ? f->kind : F_STD;
    uint64_t fid = f ? f->id : 0;
    if (!f) { err = EBADF; }
    else switch (f->kind) {
    case F_PIPE_W: {
        auto &p = *f->pipe;
        if (p.readers == 0) { err = EPIPE; if (by == OWN_LIB) sigpipe_count++; break; }
        size_t space = p.capacity > p.buf.size() ? p.capacity - p.buf.size() : 0;
        if (n <= 4096) {
            if (space < n) { err = EAGAIN; if (by == OWN_LIB) R->ctr.fault("pipe_full"); break; }
            for (size_t i = 0; i < n; i++) p.buf.push_back(((const uint8_t *)buf)[i]);
            ret = (long)n;
        } else {
            if (space == 0) { err = EAGAIN; break; }
            size_t k = std::min(space, n);
            for (size_t i = 0; i < k; i++) p.buf.push_back(((const uint8_t *)buf)[i]);
            ret = (long)k;
        }
        hb_release(p.vc);
        break;
    }
    case F_EVENTFD: {
        if (n < 8) { err = EINVAL; break; }
        uint64_t v;
        memcpy(&v, buf, 8);
        if (v == 0xffffffffffffffffULL) { err = EINVAL; break; }
        if (f->counter + v < f->counter || f->counter + v > 0xfffffffffffffffeULL) { err = EAGAIN; break; }   // would block (all eventfds here are non-blocking)
        f->counter += v;
        hb_release(f->vc);
        ret = 8;
        break;
    }
    case F_STD: ret = (long)n; break;
    case F_PIPE_R: err = EBADF; break;   // not open for writing
    default: err = EINVAL; break;
    }
    if (log_io) ios.push_back(IoRec{R->gseq, fd, fid, true, by, ret, err, kind});
    tr("k_write", fd, ret, err);
    if (ret < 0) errno = err;
    else kernel_changed();
    return ret;
}

int Kernel::k_eventfd(unsigned init, int flags, Owner by) {
    auto f = std::make_shared<File>();
    f->id = next_file_id++; f->kind = F_EVENTFD; f->counter = init;
    f->flags = (flags & EFD_NONBLOCK) ? O_NONBLOCK : 0;
    return alloc_fd(f, by);
}

int Kernel::k_timerfd_create(int clockid, int flags, Owner by) {
    (void)flags;
    auto f = std::make_shared<File>();
    f->id = next_file_id++; f->kind = F_TIMERFD; f->clockid = clockid; f->flags = O_NONBLOCK;
    return alloc_fd(f, by);
}

int Kernel::k_timerfd_settime(int fd, int flags, uint64_t value_ns, uint64_t interval_ns, Owner by) {
    (void)by;
    File *f = get(fd);
    if (!f) { errno = EBADF; return -1; }
    if (f->kind != F_TIMERFD) { errno = EINVAL; return -1; }
    if (value_ns == 0) { f->armed = false; return 0; }
    f->armed = true;
    f->interval = interval_ns;
    f->late = R->cfg.timer_late_ns ? R->r_clock.below(R->cfg.timer_late_ns + 1) : 0;
    if (f->late) R->ctr.fault("timer_late");
    f->abs_realtime = false;
    if (flags & TFD_TIMER_ABSTIME) {
        int64_t off = f->clockid == CLOCK_REALTIME ? realtime_offset_ns : 0;
        int64_t t = (int64_t)value_ns - off;
        f->expire_at = t <= (int64_t)R->now ? R->now : (uint64_t)t;
        if (f->clockid == CLOCK_REALTIME) { f->abs_realtime = true; f->abs_value = value_ns; }
    } else {
        f->expire_at = R->now + value_ns;
    }
    tr("k_timer_set", fd, (long)(value_ns > 2000000000000ULL ? -1 : (long)value_ns), (long)(interval_ns != 0));
    return 0;
}

int Kernel::k_signalfd(int fd, uint64_t mask, int flags, Owner by) {
    (void)flags;
    if (fd != -1) {
        File *f = get(fd);
        if (!f || f->kind != F_SIGNALFD) { errno = EINVAL; return -1; }
        f->sigmask = mask;
        return fd;
    }
    auto f = std::make_shared<File>();
    f->id = next_file_id++; f->kind = F_SIGNALFD; f->sigmask = mask; f->flags = O_NONBLOCK;
    return alloc_fd(f, by);
}

int Kernel::k_inotify_init(int flags, Owner by) {
    (void)flags;
    auto f = std::make_shared<File>();
    f->id = next_file_id++; f->kind = F_INOTIFY; f->flags = O_NONBLOCK;
    return alloc_fd(f, by);
}

int Kernel::k_inotify_add_watch(int fd, const char *path, uint32_t mask, Owner by) {
    (void)by;
    File *f = get(fd);
    if (!f) { errno = EBADF; return -1; }
    if (f->kind != F_INOTIFY) { errno = EINVAL; return -1; }
    f->watches.push_back({(int)mask, path});
    return (int)f->watches.size();
}

int Kernel::k_pidfd_open(int pid, Owner by) {
    if (!live_pids.count(pid) && !exited_pids.count(pid)) { errno = ESRCH; return -1; }
    auto f = std::make_shared<File>();
    f->id = next_file_id++; f->kind = F_PIDFD; f->pid = pid;
    return alloc_fd(f, by);
}

int Kernel::k_epoll_create(int flags, Owner by) {
    (void)flags;
    auto f = std::make_shared<File>();
    f->id = next_file_id++; f->kind = F_EPOLL;
    return alloc_fd(f, by);
}

int Kernel::k_epoll_ctl(int epfd, int op, int fd, uint32_t events, uint64_t data, Owner by) {
    (void)by;
    File *ep = get(epfd);
    File *f = get(fd);
    tr("k_epoll_ctl", op, fd, f ? 1 : 0);
    if (!ep || !f) { errno = EBADF; return -1; }
    if (ep->kind != F_EPOLL || epfd == fd) { errno = EINVAL; return -1; }
    if (f->kind == F_STD) { errno = EPERM; return -1; }
    auto it = std::find_if(ep->regs.begin(), ep->regs.end(), [&](const EpollReg &r) { return r.fd == fd && r.file_id == f->id; });
    switch (op) {
    case EPOLL_CTL_ADD: {
        if (it != ep->regs.end()) { errno = EEXIST; return -1; }
        EpollReg r;
        r.fd = fd; r.file_id = f->id; r.wf = fds[fd].file; r.events = events; r.data = data; r.reg_seq = R->gseq;
        ep->regs.push_back(r);
        kernel_changed();
        return 0;
    }
    case EPOLL_CTL_DEL:
        if (it == ep->regs.end()) { errno = ENOENT; return -1; }
        ep->regs.erase(it);
        return 0;
    case EPOLL_CTL_MOD:
        if (it == ep->regs.end()) { errno = ENOENT; return -1; }
        it->events = events; it->data = data; it->disarmed = false;
        kernel_changed();
        return 0;
    default: errno = EINVAL; return -1;
    }
}

struct __attribute__((packed)) kepoll_event { uint32_t events; uint64_t data; };
static_assert(sizeof(kepoll_event) == sizeof(struct epoll_event), "epoll_event layout");

int Kernel::k_epoll_wait(int epfd, void *events, int maxevents, int timeout_ms, Owner by) {
    epoll_waits++;
    yield_point("epoll_wait");
    if (by == OWN_LIB && on_epoll_wait) on_epoll_wait();
    File *ep = get(epfd);
    if (!ep) { errno = EBADF; return -1; }
    if (ep->kind != F_EPOLL || maxevents <= 0) { errno = EINVAL; return -1; }
    bool blocking = timeout_ms != 0;
    if (blocking && (epoll_waits > R->cfg.max_waits || R->horizon_hit)) {
        poll_failure_injected = true;
        R->ctr.fault("poll_failure");
        tr("k_epoll_fail", epfd);
        errno = EBADF;
        return -1;
    }
    bool eintr_drawn = false;
    uint64_t wake_at = timeout_ms > 0 ? R->now + (uint64_t)timeout_ms * 1000000ULL : 0;
    for (;;) {
        ep = get(epfd);
        if (!ep) { errno = EBADF; return -1; }
        std::vector<size_t> cand;
        for (size_t i = 0; i < ep->regs.size(); i++) {
            EpollReg &r = ep->regs[i];
            if (r.disarmed) continue;
            auto f = r.wf.lock();
            if (!f) continue;
            bool hup = f->kind == F_PIPE_R && f->pipe->writers == 0;   // reported whether asked for or not
            if (((r.events & EPOLLIN) && readable(f.get())) || hup) cand.push_back(i);
        }
        if (!cand.empty()) {
            size_t total = cand.size();
            if (R->cfg.shuffle_batch && cand.size() > 1) {
                for (size_t i = cand.size() - 1; i > 0; i--) std::swap(cand[i], cand[epoll_rng().below(i + 1)]);
            }
            size_t n = std::min((size_t)maxevents, cand.size());
            if (n > 1 && R->cfg.subset_p > 0 && epoll_rng().chance(R->cfg.subset_p)) {
                n = 1 + epoll_rng().below(n - 1);
                R->ctr.fault("batch_subset");
            }
            // fairness: a registration passed over 3 times goes first
            std::stable_sort(cand.begin(), cand.end(), [&](size_t a, size_t b) {
                return (ep->regs[a].passed_over >= 3) > (ep->regs[b].passed_over >= 3);
            });
            if (n < cand.size()) {
                size_t forced = 0;
                for (size_t i : cand) if (ep->regs[i].passed_over >= 3) forced++;
                n = std::min((size_t)maxevents, std::max(n, forced));
            }
            BatchRec rec;
            rec.gseq = R->gseq; rec.epfd = epfd; rec.ready_total = (int)total;
            kepoll_event *out = (kepoll_event *)events;
            for (size_t j = 0; j < cand.size(); j++) {
                EpollReg &r = ep->regs[cand[j]];
                if (j < n) {
                    auto rf = r.wf.lock();
                    bool hup = rf && rf->kind == F_PIPE_R && rf->pipe->writers == 0;
                    out[j].events = ((rf && readable(rf.get())) ? EPOLLIN : 0) | (hup ? EPOLLHUP : 0);
                    if (hup) R->ctr.fault("peer_hangup");
                    out[j].data = r.data;
                    r.passed_over = 0;
                    bool os = (r.events & EPOLLONESHOT) != 0;
                    if (os) r.disarmed = true;
                    rec.items.push_back(BatchItem{r.fd, r.file_id, r.data, os});
                    fp_mix(0xba7c0000ULL + r.fd);
                } else {
                    r.passed_over++;
                }
            }
            if (n > 1) R->ctr.probe("multi_event_batch");
            if (n >= 8) R->ctr.probe("batch_ge_8");
            if (total > (size_t)maxevents) R->ctr.probe("batch_overflow_maxevents");
            batches.push_back(rec);
            tr("k_epoll_ret", epfd, (long)n, (long)total);
            return (int)n;
        }
        if (!blocking) { tr("k_epoll_ret", epfd, 0, 0); return 0; }
        if (!eintr_drawn) {
            eintr_drawn = true;
            if (R->cfg.eintr_p > 0 && R->r_fault.chance(R->cfg.eintr_p)) {
                R->ctr.fault("eintr");
                tr("k_epoll_eintr", epfd);
                errno = EINTR;
                return -1;
            }
        }
        int rc = epoll_block(epfd, wake_at);
        if (rc == 2) {
            poll_failure_injected = true;
            R->ctr.fault("poll_failure");
            tr("k_epoll_fail", epfd);
            errno = EBADF;
            return -1;
        }
        if (rc == 1) { tr("k_epoll_ret", epfd, 0, 0); return 0; }
    }
}

void Kernel::env_raise_signal(int signo) {
    pending_signals |= 1ULL << signo;
    tr("env_signal", signo);
    kernel_changed();
}
void Kernel::env_pid_exit(int pid) {
    live_pids.erase(pid);
    exited_pids.insert(pid);
    tr("env_pid_exit", pid);
    kernel_changed();
}
void Kernel::env_pid_reap(int pid) {
    // the process is gone for good (exited and waited for): descriptors already open stay readable, it cannot be opened any more
    live_pids.erase(pid);
    exited_pids.erase(pid);
    reaped_pids.insert(pid);
    tr("env_pid_reap", pid);
    kernel_changed();
}
void Kernel::env_touch(const char *path, uint32_t mask, bool with_name) {
    for (auto &f : all_files())
        if (f->kind == F_INOTIFY)
            for (auto &w : f->watches)
                if (w.second == path && ((uint32_t)w.first & mask)) f->inq.push_back({mask, with_name ? "entry" : ""});
    tr("env_touch", (long)mask);
    kernel_changed();
}
void Kernel::env_clock_step(int64_t delta_ns) {
    realtime_offset_ns += delta_ns;
    for (auto &f : all_files())
        if (f->kind == F_TIMERFD && f->armed && f->abs_realtime) {
            int64_t t = (int64_t)f->abs_value - realtime_offset_ns;
            f->expire_at = t <= (int64_t)R->now ? R->now : (uint64_t)t;
        }
    R->ctr.fault("clock_step");
    tr("env_clock_step");
    kernel_changed();
}

} // namespace sim
