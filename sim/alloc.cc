// simalloc: the allocator installed through m_set_memhook. Tracks every block, never reuses an
// address within a run (freed blocks are poisoned and quarantined until the run ends), detects
// double / foreign frees before they reach the real allocator and can fail the k-th allocation.
#include "sim.h"
#include <cstdlib>
#include <cstring>

#if defined(__has_feature)
#if __has_feature(address_sanitizer)
#define SIM_ASAN 1
#endif
#endif
#ifdef SIM_ASAN
extern "C" void __asan_poison_memory_region(void const volatile *addr, size_t size);
extern "C" void __asan_unpoison_memory_region(void const volatile *addr, size_t size);
#endif

namespace sim {

void Alloc::reset() {
    blocks.clear();
    n_alloc = n_free = failed = 0;
    fail_at = -1;
    cur_tag = 0;
    on_bad_free = nullptr;
}

void *Alloc::do_malloc(size_t n, bool zero) {
    if (fail_at >= 0) {
        if (fail_at == 0) {
            fail_at = -1;
            failed++;
            R->ctr.fault("alloc_fail");
            tr("alloc_fail");
            return nullptr;
        }
        fail_at--;
    }
    size_t real = n ? n : 1;
    void *p = zero ? calloc(1, real) : malloc(real);
    if (!p) { fprintf(stderr, "sim: real allocator failed\n"); _Exit(2); }
    if (!zero) memset(p, 0xA5, real);   // uninitialised memory must not look like zeros
    blocks[(uintptr_t)p] = Block{n, R->gseq, false, 0, cur_tag};
    n_alloc++;
    return p;
}

void Alloc::do_free(void *p) {
    if (!p) return;
    auto it = blocks.find((uintptr_t)p);
    if (it == blocks.end()) {
        if (on_bad_free) on_bad_free(p, false, 0);
        const Block *in = find(p);
        violation("C04", in ? "free-interior-pointer" : "free-foreign-pointer",
                  "free() of a pointer the allocator never returned%s", in ? " (points inside a block)" : "");
    }
    if (it->second.freed && on_bad_free) on_bad_free(p, true, it->second.tag);
    if (it->second.freed) violation("C04", "double-free", "block of %zu bytes freed twice", it->second.size);
    it->second.freed = true;
    it->second.free_gseq = R->gseq;
    n_free++;
#ifdef SIM_ASAN
    __asan_poison_memory_region(p, it->second.size ? it->second.size : 1);
#else
    memset(p, 0xDD, it->second.size);
#endif
}

const Block *Alloc::find(const void *p) const {
    uintptr_t a = (uintptr_t)p;
    auto it = blocks.upper_bound(a);
    if (it == blocks.begin()) return nullptr;
    --it;
    size_t sz = it->second.size ? it->second.size : 1;
    if (a >= it->first && a < it->first + sz) return &it->second;
    return nullptr;
}

const Block *Alloc::find_incl(const void *p) const {
    if (const Block *b = find(p)) return b;
    uintptr_t a = (uintptr_t)p;
    auto it = blocks.upper_bound(a);
    if (it == blocks.begin()) return nullptr;
    --it;
    if (a == it->first + it->second.size) return &it->second;
    return nullptr;
}

std::vector<std::pair<uintptr_t, Block>> Alloc::live_blocks() const {
    std::vector<std::pair<uintptr_t, Block>> v;
    for (auto &kv : blocks) if (!kv.second.freed) v.push_back(kv);
    return v;
}

void Alloc::release_all() {
    for (auto &kv : blocks) {
#ifdef SIM_ASAN
        __asan_unpoison_memory_region((void *)kv.first, kv.second.size ? kv.second.size : 1);
#endif
        free((void *)kv.first);
    }
    blocks.clear();
}

} // namespace sim

extern "C" {
void *sk_malloc(size_t n) { return sim::R->a.do_malloc(n, false); }
void *sk_calloc(size_t a, size_t b) { return sim::R->a.do_malloc(a * b, true); }
void sk_free(void *p) { sim::R->a.do_free(p); }
}
