// One integer decides everything: SplitMix64-seeded xoshiro256** with named sub-streams.
#pragma once
#include <cstdint>
#include <cstring>
#include <string>

namespace sim {

static inline uint64_t splitmix64(uint64_t &x) {
    uint64_t z = (x += 0x9e3779b97f4a7c15ULL);
    z = (z ^ (z >> 30)) * 0xbf58476d1ce4e5b9ULL;
    z = (z ^ (z >> 27)) * 0x94d049bb133111ebULL;
    return z ^ (z >> 31);
}

static inline uint64_t mix64(uint64_t a, uint64_t b) {
    uint64_t x = a ^ (b + 0x9e3779b97f4a7c15ULL + (a << 6) + (a >> 2));
    return splitmix64(x);
}

static inline uint64_t hash_str(const char *s) {
    uint64_t h = 1469598103934665603ULL;
    while (*s) { h ^= (unsigned char)*s++; h *= 1099511628211ULL; }
    return h;
}

struct Rng {
    uint64_t s[4];
    uint64_t draws = 0;
    Rng() { seed(0); }
    explicit Rng(uint64_t sd) { seed(sd); }
    void seed(uint64_t sd) {
        uint64_t x = sd;
        for (int i = 0; i < 4; i++) s[i] = splitmix64(x);
        draws = 0;
    }
    static inline uint64_t rotl(uint64_t x, int k) { return (x << k) | (x >> (64 - k)); }
    uint64_t next() {
        draws++;
        const uint64_t result = rotl(s[1] * 5, 7) * 9;
        const uint64_t t = s[1] << 17;
        s[2] ^= s[0]; s[3] ^= s[1]; s[1] ^= s[2]; s[0] ^= s[3];
        s[2] ^= t; s[3] = rotl(s[3], 45);
        return result;
    }
    // uniform in [0, n)
    uint64_t below(uint64_t n) { return n ? next() % n : 0; }
    // uniform in [lo, hi]
    int64_t range(int64_t lo, int64_t hi) { return lo + (int64_t)below((uint64_t)(hi - lo + 1)); }
    bool chance(double p) {
        if (p <= 0) return false;
        if (p >= 1) return true;
        return (next() >> 11) * (1.0 / 9007199254740992.0) < p;
    }
    template <class T> const T &pick(const T *arr, size_t n) { return arr[below(n)]; }
    // weighted pick: returns index
    int weighted(const int *w, int n) {
        long tot = 0;
        for (int i = 0; i < n; i++) tot += w[i];
        if (tot <= 0) return 0;
        long r = (long)below((uint64_t)tot);
        for (int i = 0; i < n; i++) { if (r < w[i]) return i; r -= w[i]; }
        return n - 1;
    }
};

// derive an independent stream from (seed, name, index)
static inline Rng fork_rng(uint64_t seed, const char *name, uint64_t idx = 0) {
    return Rng(mix64(mix64(seed, hash_str(name)), idx));
}

} // namespace sim
