// Baton scheduler: simulated threads are real pthreads that run strictly one at a time.
// Who runs next is always decided here from the run's PRNG, never by the OS.
#include "sim.h"
#include <cstdlib>
#include <cstring>
#include <cerrno>
#include <algorithm>
#include <unistd.h>

namespace sim {

Run *R = nullptr;
bool g_race_build = false;
const char *g_race_property = "C14";

static inline Thread &T() { return *R->threads[R->cur]; }

void fp_mix(uint64_t v) { R->fp = mix64(R->fp, v); }

void tr(const char *kind, long a, long b, long c) {
    R->gseq++;
    R->fp = mix64(R->fp, hash_str(kind) ^ ((uint64_t)a * 0x9e37ULL) ^ ((uint64_t)b << 20) ^ ((uint64_t)c << 40));
    if (R->cfg.trace) {
        fprintf(stderr, "[%6lu t=%lu.%09lu th=%d] %s %ld %ld %ld\n", (unsigned long)R->gseq,
                (unsigned long)(R->now / 1000000000ULL), (unsigned long)(R->now % 1000000000ULL), R->cur, kind, a, b, c);
    }
    if (R->trace.size() < 200000) R->trace.push_back(Ev{R->gseq, R->now, kind, a, b, c});
}

void violation(const char *prop, const char *sig, const char *fmt, ...) {
    char buf[2048];
    va_list ap;
    va_start(ap, fmt);
    vsnprintf(buf, sizeof buf, fmt, ap);
    va_end(ap);
    for (char *p = buf; *p; p++) if (*p == '\n') *p = ' ';
    if (R && R->on_violation) R->on_violation(prop, sig, buf);
    printf("VIOL %s %s | %s\n", prop, sig, buf);
    fflush(stdout);
    _exit(3);
}

// ------------------------------------------------------------------ run life cycle
void run_begin(const Config &cfg) {
    race_reset();
    R = new Run();
    R->cfg = cfg;
    R->r_sched = fork_rng(cfg.seed, "sched");
    R->r_epoll = fork_rng(cfg.seed, "epoll");
    R->r_clock = fork_rng(cfg.seed, "clock");
    R->r_fault = fork_rng(cfg.seed, "fault");
    sem_init(&R->done_sem, 0, 0);
    R->k.reset();
    R->a.reset();
    if (cfg.sched == S_PCT) {
        for (int i = 0; i + 1 < cfg.pct_depth; i++) R->pct_change_points.push_back(R->r_sched.below(3000));
    }
}

static void thread_exit_killed() { pthread_exit(nullptr); }

static void wait_baton(Thread &t) {
    while (sem_wait(&t.sem) != 0) {}
    if (R->killed) thread_exit_killed();
}

static int count_runnable() {
    int n = 0;
    for (auto &t : R->threads) if (t->st == Thread::RUNNABLE) n++;
    return n;
}

// pick the next thread to run among RUNNABLE ones; -1 if none
static int pick_next() {
    std::vector<int> rs;
    for (auto &t : R->threads) if (t->st == Thread::RUNNABLE) rs.push_back(t->id);
    if (rs.empty()) return -1;
    if (rs.size() == 1) return rs[0];
    int me = R->cur;
    bool self_ok = me >= 0 && R->threads[me]->st == Thread::RUNNABLE;
    int choice = rs[0];
    switch (R->cfg.sched) {
    case S_RTB:
        choice = self_ok ? me : rs[R->r_sched.below(rs.size())];
        break;
    case S_RANDOM:
        if (self_ok && !R->r_sched.chance(R->cfg.switch_p)) choice = me;
        else choice = rs[R->r_sched.below(rs.size())];
        break;
    case S_RR: {
        if (self_ok && T().quantum > 0) { T().quantum--; choice = me; break; }
        // next id after me, cyclic
        choice = rs[0];
        for (int id : rs) if (id > me) { choice = id; break; }
        R->threads[choice]->quantum = R->cfg.rr_quantum;
        break;
    }
    case S_PCT: {
        for (uint64_t cp : R->pct_change_points)
            if (cp == R->steps && self_ok) {
                int lo = 0;
                for (auto &t : R->threads) lo = std::min(lo, t->prio);
                T().prio = lo - 1;
            }
        int best = rs[0];
        for (int id : rs) if (R->threads[id]->prio > R->threads[best]->prio) best = id;
        choice = best;
        break;
    }
    }
    fp_mix(0x5c4ed000ULL + choice);
    return choice;
}

static void switch_to(int next) {
    int me = R->cur;
    if (next == me) return;
    R->cur = next;
    R->switches++;
    Thread &self = *R->threads[me];   // taken before the baton is handed over: from then on the other thread may grow R->threads
    sem_post(&R->threads[next]->sem);
    wait_baton(self);
}

static void wake_epoll_waiters() {
    for (auto &t : R->threads)
        if (t->st == Thread::BLOCKED && t->why == Thread::W_EPOLL) { t->st = Thread::RUNNABLE; }
}
void kernel_changed() { wake_epoll_waiters(); }

static void fire_due() {
    while (!R->timed.empty() && R->timed.front().first <= R->now) {
        auto fn = R->timed.front().second;
        R->timed.erase(R->timed.begin());
        fn();
    }
}

static void wake_due() {
    for (auto &t : R->threads)
        if (t->st == Thread::BLOCKED && t->wake_at && t->wake_at <= R->now) {
            t->st = Thread::RUNNABLE;
            t->timed_out = true;
            t->wake_at = 0;
        }
}

static void time_passed(uint64_t prev) {
    fire_due();
    wake_due();
    // a timer that became readable wakes epoll waiters (they re-check)
    if (R->k.timer_ready_between(prev, R->now)) wake_epoll_waiters();
}

uint64_t next_event_time() {
    uint64_t best = 0;
    auto upd = [&](uint64_t t) { if (t && (!best || t < best)) best = t; };
    if (!R->timed.empty()) upd(std::max(R->timed.front().first, R->now + 1));
    bool epoll_waiter = false;
    for (auto &t : R->threads) {
        if (t->st == Thread::BLOCKED && t->wake_at) upd(std::max(t->wake_at, R->now + 1));
        if (t->st == Thread::BLOCKED && t->why == Thread::W_EPOLL) epoll_waiter = true;
    }
    if (epoll_waiter) upd(R->k.next_timer_event());
    return best;
}

// nobody runnable and no future event. Returns true if it made somebody runnable.
static bool handle_stuck() {
    // past the horizon simulated time no longer advances: a thread that only sleeps is let through (it is not stuck, time is)
    if (R->horizon_hit) {
        Thread *first = nullptr;   // in the order their sleeps would have ended
        for (auto &t : R->threads)
            if (t->st == Thread::BLOCKED && t->why == Thread::W_SLEEP && (!first || t->wake_at < first->wake_at)) first = t.get();
        if (first) {
            first->st = Thread::RUNNABLE;
            first->wake_at = 0;
            first->timed_out = true;
            return true;
        }
    }
    for (auto &t : R->threads)
        if (t->st == Thread::BLOCKED && t->why == Thread::W_EPOLL) {
            // genuine polling failure injected: ends a loop that can never make progress again
            t->st = Thread::RUNNABLE;
            t->inject_fail = true;
            return true;
        }
    return false;
}

[[noreturn]] static void park_forever() {
    for (;;) wait_baton(T());
}

static void run_complete() {
    sem_post(&R->done_sem);
}

static std::string describe_blocked() {
    std::string s;
    static const char *why[] = {"none", "mutex", "cond", "join", "epoll", "sleep", "park"};
    for (auto &t : R->threads)
        if (t->st == Thread::BLOCKED) { s += t->name + ":" + why[t->why] + " "; }
    return s;
}

// current thread cannot continue; find someone else. Returns when current thread holds the baton again.
static void block_loop() {
    for (;;) {
        fire_due();
        wake_due();
        int next = pick_next();
        if (next >= 0) { switch_to(next); return; }
        if (R->now > R->cfg.max_time_ns) R->horizon_hit = true;
        uint64_t t = R->horizon_hit ? 0 : next_event_time();
        if (t == 0) {
            if (handle_stuck()) continue;
            bool main_done = R->threads[0]->st == Thread::DONE;
            if (main_done) { run_complete(); park_forever(); }
            std::string d = describe_blocked();
            violation("C06", "deadlock", "no runnable thread and no pending event; blocked: %s", d.c_str());
        }
        if (t > R->now) R->now = t;
        wake_epoll_waiters();
    }
}

void yield_point(const char *what) {
    (void)what;
    R->steps++;
    if (R->steps > R->cfg.max_steps) R->horizon_hit = true;
    if (R->cfg.cost_ns) {
        uint64_t prev = R->now;
        R->now += R->r_clock.below(R->cfg.cost_ns + 1);
        time_passed(prev);
    } else if (!R->timed.empty() && R->timed.front().first <= R->now) {
        fire_due();
    }
    if (R->threads.size() > 1 && count_runnable() > 1) {
        int next = pick_next();
        if (next >= 0 && next != R->cur) { tr("switch", next); switch_to(next); }
    }
}

static void block(Thread::Why why, const void *obj) {
    Thread &t = T();
    t.st = Thread::BLOCKED;
    t.why = why;
    t.obj = obj;
    t.timed_out = false;
    R->steps++;
    block_loop();
    t.why = Thread::W_NONE;
    t.obj = nullptr;
}

struct Tramp { Thread *t; };
static void *trampoline(void *p) {
    Thread *t = (Thread *)p;
    wait_baton(*t);
    t->started = true;
    tr("thread_start", t->id);
    t->ret = t->fn(t->arg);
    // finish
    tr("thread_exit", t->id);
    t->st = Thread::DONE;
    for (auto &o : R->threads)
        if (o->st == Thread::BLOCKED && o->why == Thread::W_JOIN && o->join_target == t->id) o->st = Thread::RUNNABLE;
    for (;;) {
        fire_due();
        wake_due();
        int next = pick_next();
        if (next >= 0) { R->cur = next; R->switches++; sem_post(&R->threads[next]->sem); return nullptr; }
        if (R->now > R->cfg.max_time_ns) R->horizon_hit = true;
        bool anyone = false;
        for (auto &o : R->threads) if (o->st != Thread::DONE) anyone = true;
        uint64_t tm = (!anyone || R->horizon_hit) ? 0 : next_event_time();
        if (tm == 0) {
            if (anyone && handle_stuck()) continue;
            if (R->threads[0]->st != Thread::DONE) {
                std::string d = describe_blocked();
                violation("C06", "deadlock", "no runnable thread and no pending event; blocked: %s", d.c_str());
            }
            run_complete();
            return nullptr;
        }
        if (tm > R->now) R->now = tm;
        wake_epoll_waiters();
    }
}

int thread_create(void *(*fn)(void *), void *arg, bool detached, const char *name) {
    auto t = std::make_unique<Thread>();
    t->id = (int)R->threads.size();
    t->fn = fn;
    t->arg = arg;
    t->detached = detached;
    t->name = name ? name : "t";
    t->name += std::to_string(t->id);
    t->st = Thread::RUNNABLE;
    t->prio = (int)R->r_sched.below(1000);
    t->quantum = R->cfg.rr_quantum;
    sem_init(&t->sem, 0, 0);
    if (R->cur >= 0) t->vc = T().vc;
    if ((int)t->vc.size() <= t->id) t->vc.resize(t->id + 1, 0);
    t->vc[t->id] = 1;
    if (R->cur >= 0) {
        if ((int)T().vc.size() <= R->cur) T().vc.resize(R->cur + 1, 0);
        T().vc[R->cur]++;
    }
    Thread *raw = t.get();
    R->threads.push_back(std::move(t));
    pthread_attr_t at;
    pthread_attr_init(&at);
    pthread_attr_setstacksize(&at, 1 << 20);
    int rc = pthread_create(&raw->real, &at, trampoline, raw);
    pthread_attr_destroy(&at);
    if (rc != 0) { fprintf(stderr, "sim: real pthread_create failed: %d\n", rc); _exit(2); }
    tr("thread_create", raw->id, detached);
    return raw->id;
}

void thread_join(int tid) {
    if (tid < 0 || tid >= (int)R->threads.size()) violation("C06", "join-invalid", "join of unknown thread %d", tid);
    Thread &o = *R->threads[tid];
    if (o.detached) violation("C06", "join-detached", "join of detached thread %d", tid);
    if (o.joined) violation("C06", "join-twice", "second join of thread %d", tid);
    yield_point("join");
    while (o.st != Thread::DONE) {
        T().join_target = tid;
        block(Thread::W_JOIN, nullptr);
    }
    o.joined = true;
    // happens-before: everything the joined thread did
    Thread &me = T();
    if (me.vc.size() < o.vc.size()) me.vc.resize(o.vc.size(), 0);
    for (size_t i = 0; i < o.vc.size(); i++) me.vc[i] = std::max(me.vc[i], o.vc[i]);
    tr("thread_joined", tid);
}

void set_own_stream(int logical_id) {
    Thread &t = T();
    t.own_stream = true;
    t.r_own = fork_rng(R->cfg.seed, "epoll-own", (uint64_t)logical_id);
}
Rng &epoll_rng() {
    if (R->cur >= 0 && T().own_stream) return T().r_own;
    return R->r_epoll;
}

void sleep_ns(uint64_t ns) {
    T().wake_at = R->now + (ns ? ns : 1);
    block(Thread::W_SLEEP, nullptr);
}

bool all_others_done() {
    for (auto &t : R->threads) if (t->id != R->cur && t->st != Thread::DONE) return false;
    return true;
}

// dispatch-mode driver: nothing was ready; let time pass until the next event.
// returns false if nothing can ever happen again.
bool advance_idle() {
    uint64_t t = 0;
    {
        auto upd = [&](uint64_t x) { if (x && (!t || x < t)) t = x; };
        if (!R->timed.empty()) upd(std::max(R->timed.front().first, R->now + 1));
        for (auto &th : R->threads) if (th->st == Thread::BLOCKED && th->wake_at) upd(std::max(th->wake_at, R->now + 1));
        upd(R->k.next_timer_event());
    }
    bool others = false;
    for (auto &th : R->threads) if (th->id != R->cur && th->st == Thread::RUNNABLE) others = true;
    if (t == 0 && !others) return false;
    if (R->now > R->cfg.max_time_ns) { R->horizon_hit = true; return false; }
    if (t == 0) { sleep_ns(1000); return true; }
    sleep_ns(t - R->now);
    return true;
}

// dispatch-mode driver: wait like a blocked poll would - until any kernel object changes or simulated time
// reaches the next timer/environment event. Returns false when nothing can ever happen again.
bool wait_kernel_event() {
    if (R->now > R->cfg.max_time_ns || R->horizon_hit) { R->horizon_hit = true; return false; }
    // level-triggered: something that became ready since the last poll must not be slept through
    for (auto &f : R->k.all_files())
        if (f->kind == F_EPOLL)
            for (auto &r : f->regs) {
                auto t = r.wf.lock();
                if (t && !r.disarmed && (R->k.readable(t.get()) || (t->kind == F_PIPE_R && t->pipe->writers == 0))) return true;
            }
    int rc = epoll_block(-1, 0);
    return rc != 2;
}

void park() { block(Thread::W_PARK, nullptr); }
void unpark(int tid) {
    Thread &o = *R->threads[tid];
    if (o.st == Thread::BLOCKED && o.why == Thread::W_PARK) o.st = Thread::RUNNABLE;
}
int self_id() { return R->cur; }

void at_time(uint64_t t, std::function<void()> fn) {
    auto it = R->timed.begin();
    while (it != R->timed.end() && it->first <= t) ++it;
    R->timed.insert(it, {t, fn});
}

void run_main(std::function<void()> fn) {
    static std::function<void()> s_fn;
    s_fn = fn;
    thread_create([](void *) -> void * { s_fn(); return nullptr; }, nullptr, false, "main");
    R->cur = 0;
    sem_post(&R->threads[0]->sem);
    while (sem_wait(&R->done_sem) != 0) {}
}

void run_end() {
    R->killed = true;
    for (auto &t : R->threads) sem_post(&t->sem);   // DONE threads ignore it; parked ones exit
    for (auto &t : R->threads) pthread_join(t->real, nullptr);
    for (auto &t : R->threads) sem_destroy(&t->sem);
    R->a.release_all();
    sem_destroy(&R->done_sem);
    delete R;
    R = nullptr;
}

// ------------------------------------------------------------------ happens-before helpers
void hb_release(std::vector<uint32_t> &vc) {
    if (!g_race_build) return;
    Thread &t = T();
    if ((int)t.vc.size() <= t.id) t.vc.resize(t.id + 1, 0);
    if (vc.size() < t.vc.size()) vc.resize(t.vc.size(), 0);
    for (size_t i = 0; i < t.vc.size(); i++) vc[i] = std::max(vc[i], t.vc[i]);
    t.vc[t.id]++;
}
void hb_acquire(const std::vector<uint32_t> &vc) {
    if (!g_race_build) return;
    Thread &t = T();
    if (t.vc.size() < vc.size()) t.vc.resize(vc.size(), 0);
    for (size_t i = 0; i < vc.size(); i++) t.vc[i] = std::max(t.vc[i], vc[i]);
}

// ------------------------------------------------------------------ pthread model
static void check_sync_obj(const void *p, const char *what) {
    if (R->a.is_freed(p)) violation("C06", "sync-use-after-free", "%s on a synchronisation object inside freed memory (thread %s)", what, T().name.c_str());
}

static MutexState &mstate(const void *m, const char *what) {
    check_sync_obj(m, what);
    MutexState &s = R->mutexes[m];
    if (s.destroyed) violation("C06", "mutex-use-after-destroy", "%s on destroyed mutex (thread %s)", what, T().name.c_str());
    return s;
}
static CondState &cstate(const void *c, const char *what) {
    check_sync_obj(c, what);
    CondState &s = R->conds[c];
    if (s.destroyed) violation("C06", "cond-use-after-destroy", "%s on destroyed condition variable (thread %s)", what, T().name.c_str());
    return s;
}

int mutex_init(const void *m) {
    check_sync_obj(m, "mutex_init");
    MutexState &s = R->mutexes[m];
    s = MutexState();
    s.inited = true;
    tr("mutex_init");
    return 0;
}
int mutex_destroy(const void *m) {
    MutexState &s = mstate(m, "mutex_destroy");
    if (s.owner != -1) violation("C06", "mutex-destroy-locked", "mutex destroyed while locked by %s", R->threads[s.owner]->name.c_str());
    for (auto &t : R->threads)
        if (t->st == Thread::BLOCKED && t->why == Thread::W_MUTEX && t->obj == m)
            violation("C06", "mutex-destroy-waited", "mutex destroyed while %s waits for it", t->name.c_str());
    s.destroyed = true;
    tr("mutex_destroy");
    return 0;
}
static void lock_inner(const void *m) {
    for (;;) {
        MutexState &s = mstate(m, "mutex_lock");
        if (s.owner == -1) { s.owner = R->cur; hb_acquire(s.vc); if (R->on_mutex_acquired) R->on_mutex_acquired(R->cur, m); return; }
        if (s.owner == R->cur) violation("C06", "mutex-relock", "thread %s locks a mutex it already holds", T().name.c_str());
        block(Thread::W_MUTEX, m);
    }
}
int mutex_lock(const void *m) {
    yield_point("mutex_lock");
    lock_inner(m);
    tr("mutex_lock");
    return 0;
}
static void unlock_inner(const void *m) {
    MutexState &s = mstate(m, "mutex_unlock");
    if (s.owner != R->cur) violation("C06", "mutex-unlock-not-owner", "thread %s unlocks a mutex it does not hold", T().name.c_str());
    hb_release(s.vc);
    s.owner = -1;
    for (auto &t : R->threads)
        if (t->st == Thread::BLOCKED && t->why == Thread::W_MUTEX && t->obj == m) t->st = Thread::RUNNABLE;
}
int mutex_unlock(const void *m) {
    unlock_inner(m);
    tr("mutex_unlock");
    yield_point("mutex_unlock");
    return 0;
}
int cond_init(const void *c) {
    check_sync_obj(c, "cond_init");
    CondState &s = R->conds[c];
    s = CondState();
    s.inited = true;
    return 0;
}
int cond_destroy(const void *c) {
    CondState &s = cstate(c, "cond_destroy");
    if (!s.waiters.empty()) violation("C06", "cond-destroy-waited", "condition variable destroyed with %zu waiters", s.waiters.size());
    s.destroyed = true;
    tr("cond_destroy");
    return 0;
}
int cond_wait(const void *c, const void *m) {
    yield_point("cond_wait");
    {
        CondState &s = cstate(c, "cond_wait");
        MutexState &ms = mstate(m, "cond_wait");
        if (ms.owner != R->cur) violation("C06", "cond-wait-unlocked", "cond_wait without holding the mutex");
        s.waiters.push_back(R->cur);
    }
    unlock_inner(m);
    tr("cond_wait");
    if (R->cfg.spurious_p > 0 && R->r_fault.chance(R->cfg.spurious_p)) {
        R->ctr.fault("spurious_wakeup");
        tr("spurious_wakeup");
        yield_point("spurious");
    } else {
        block(Thread::W_COND, c);
    }
    {
        // if the cond var vanished while we waited, say so
        CondState &s = cstate(c, "cond_wait(wake)");
        auto it = std::find(s.waiters.begin(), s.waiters.end(), R->cur);
        if (it != s.waiters.end()) s.waiters.erase(it);
    }
    lock_inner(m);
    tr("cond_woken");
    return 0;
}
int cond_signal(const void *c) {
    CondState &s = cstate(c, "cond_signal");
    if (!s.waiters.empty()) {
        size_t i = s.waiters.size() > 1 ? R->r_sched.below(s.waiters.size()) : 0;
        int tid = s.waiters[i];
        s.waiters.erase(s.waiters.begin() + i);
        Thread &t = *R->threads[tid];
        if (t.st == Thread::BLOCKED && t.why == Thread::W_COND) t.st = Thread::RUNNABLE;
        tr("cond_signal", tid);
    } else {
        tr("cond_signal", -1);
    }
    yield_point("cond_signal");
    return 0;
}
int cond_broadcast(const void *c) {
    CondState &s = cstate(c, "cond_broadcast");
    for (int tid : s.waiters) {
        Thread &t = *R->threads[tid];
        if (t.st == Thread::BLOCKED && t.why == Thread::W_COND) t.st = Thread::RUNNABLE;
    }
    tr("cond_broadcast", (long)s.waiters.size());
    s.waiters.clear();
    yield_point("cond_broadcast");
    return 0;
}

// epoll blocking support for the kernel
// returns: 0 woken (re-check), 1 timed out, 2 injected failure
int epoll_block(int epfd, uint64_t wake_at) {
    Thread &t = T();
    t.epfd = epfd;
    t.wake_at = wake_at;
    t.inject_fail = false;
    block(Thread::W_EPOLL, nullptr);
    t.wake_at = 0;
    if (t.inject_fail) { t.inject_fail = false; return 2; }
    if (t.timed_out) return 1;
    return 0;
}

} // namespace sim
