#!/usr/bin/env python3
"""Build the simulation binaries: library objects compiled straight from the repository's working
tree (never cached), libc/pthread references redirected with objcopy, harness objects cached by
content hash under /verif/build/cache."""
import hashlib, os, subprocess, sys, shutil, concurrent.futures, glob

VERIF = os.path.dirname(os.path.dirname(os.path.abspath(__file__)))
CC = "clang"
CXX = "clang++"

LIB_CORE = ["core/ctx.c", "core/mod.c", "core/ps.c", "core/src.c", "core/evts.c", "core/main.c",
            "core/poll/epoll.c", "core/poll/cmn_linux.c", "core/fs/fs_noop.c"]
LIB_STRUCTS = ["structs/map.c", "structs/bst.c", "structs/list.c", "structs/queue.c", "structs/stack.c"]
LIB_MEM = ["mem/mem.c"]
LIB_THPOOL = ["thpool/thpool.c"]
LIB_UTILS = ["utils/mem.c", "utils/utils.c", "utils/log.c"]

ENGINES = {
    "simstructs": {
        "lib": LIB_CORE + LIB_STRUCTS + LIB_MEM + LIB_THPOOL + LIB_UTILS,
        "src": ["sim/sched.cc", "sim/kernel.cc", "sim/alloc.cc", "sim/seams.cc", "sim/tsanrt.cc",
                "engines/structs/main.cc", "engines/structs/map.cc", "engines/structs/mem.cc",
                "engines/structs/bst.cc", "engines/structs/qsl.cc"],
    },
    "simcore": {
        "lib": LIB_CORE + LIB_STRUCTS + LIB_MEM + LIB_THPOOL + LIB_UTILS,
        "src": ["sim/sched.cc", "sim/kernel.cc", "sim/alloc.cc", "sim/seams.cc", "sim/tsanrt.cc"],
        "src_glob": ["engines/core/*.cc"],
    },
    "kconf": {
        "lib": [],
        "src": ["sim/sched.cc", "sim/kernel.cc", "sim/alloc.cc", "sim/tsanrt.cc", "engines/kconf/main.cc"],
    },
    "simthr": {
        "lib": LIB_CORE + LIB_STRUCTS + LIB_MEM + LIB_THPOOL + LIB_UTILS,
        "src": ["sim/sched.cc", "sim/kernel.cc", "sim/alloc.cc", "sim/seams.cc", "sim/tsanrt.cc"],
        "src_glob": ["engines/thr/*.cc"],
    },
}

LOG_CTX = {"core": "CORE", "structs": "STRUCTS", "mem": "MEM", "thpool": "THPOOL", "utils": "OTHER"}


def san_flags(kind):
    if kind == "asan":
        return ["-fsanitize=address,undefined", "-fno-sanitize-recover=undefined", "-fno-omit-frame-pointer"]
    if kind == "race":
        return ["-fsanitize=thread", "-fno-omit-frame-pointer"]
    if kind == "plain":
        return ["-fno-omit-frame-pointer"]
    raise ValueError(kind)


def lib_includes(repo):
    L = os.path.join(repo, "Lib")
    return ["-I" + os.path.join(L, d) for d in
            ["core", "core/public", "core/fs", "core/poll", "utils", "structs", "structs/public",
             "mem", "mem/public", "thpool", "thpool/public"]]


def pub_includes(repo):
    L = os.path.join(repo, "Lib")
    return ["-I" + os.path.join(L, d) for d in ["core/public", "structs/public", "mem/public", "thpool/public"]]


def run(cmd, **kw):
    r = subprocess.run(cmd, stdout=subprocess.PIPE, stderr=subprocess.STDOUT, text=True, **kw)
    if r.returncode != 0:
        sys.stderr.write("BUILD FAILED: %s\n%s\n" % (" ".join(cmd), r.stdout))
        raise SystemExit(2)
    return r.stdout


def file_hash(paths, extra=""):
    h = hashlib.sha256()
    h.update(extra.encode())
    for p in sorted(paths):
        h.update(p.encode())
        with open(p, "rb") as f:
            h.update(f.read())
    return h.hexdigest()[:24]


def harness_deps(repo):
    deps = glob.glob(os.path.join(VERIF, "sim", "*.h")) + glob.glob(os.path.join(VERIF, "engines", "*", "*.h"))
    for d in ["core/public", "structs/public", "mem/public", "thpool/public"]:
        deps += glob.glob(os.path.join(repo, "Lib", d, "module", "**", "*.h"), recursive=True)
        deps += glob.glob(os.path.join(repo, "Lib", d, "module", "*.h"))
    return sorted(set(deps))


def gen_headers(repo, outdir):
    """cmn.h / ctx.h are produced by cmake's configure_file() into the source tree; a tree that was never
    configured (fresh worktree) lacks them: derive them from the .in files the way the default configuration does."""
    extra = []
    pub = os.path.join(repo, "Lib", "core", "public", "module")
    missing = [h for h in ("cmn.h", "ctx.h") if not os.path.exists(os.path.join(pub, h))]
    if not missing:
        return extra
    gen = os.path.join(outdir, "gen")
    os.makedirs(os.path.join(gen, "module"), exist_ok=True)
    os.makedirs(os.path.join(gen, "public"), exist_ok=True)
    for h in missing:
        txt = open(os.path.join(pub, h + ".in")).read().replace("@M_CTX_HAS_FS@", "")
        open(os.path.join(gen, "module", h), "w").write(txt)
    link = os.path.join(gen, "public", "module")   # same files under both spellings (#pragma once goes by file identity)
    if not os.path.islink(link):
        os.symlink(os.path.join("..", "module"), link)
    return ["-I" + gen]


def build(engine, kind="asan", repo="/repo", outdir=None, verbose=False):
    spec = ENGINES[engine]
    if outdir is None:
        outdir = os.path.join(VERIF, "build", "%s-%s-%d" % (engine, kind, os.getpid()))
    os.makedirs(outdir, exist_ok=True)
    gen_inc = gen_headers(repo, outdir)
    cache = os.path.join(VERIF, "build", "cache")
    os.makedirs(cache, exist_ok=True)
    sf = san_flags(kind)
    seams = os.path.join(VERIF, "seams", "seams.txt")
    jobs = []
    lib_objs = []
    opt = "-O1"

    def lib_job(rel):
        src = os.path.join(repo, "Lib", rel)
        obj = os.path.join(outdir, "lib_" + rel.replace("/", "_")[:-2] + ".o")
        ctx = LOG_CTX[rel.split("/")[0]]
        cmd = [CC, "-c", opt, "-g", "-std=gnu11", "-D_GNU_SOURCE", "-DLIBMODULE_LOG_CTX=" + ctx,
               "-DFEDEDP_LIBMODULE_VERIF=1", "-w"] + sf + lib_includes(repo) + gen_inc + [src, "-o", obj]
        run(cmd)
        run(["objcopy", "--redefine-syms=" + seams, obj])
        return obj

    srcs = list(spec["src"])
    for g in spec.get("src_glob", []):
        srcs += sorted(os.path.relpath(p, VERIF) for p in glob.glob(os.path.join(VERIF, g)))
    deps = harness_deps(repo)
    flags = [CXX, "-c", opt, "-g", "-std=c++17", "-Wall", "-Wno-unused-function", "-Wno-deprecated-declarations",
             "-DSIM_BUILD_" + kind.upper() + "=1"] + (sf if kind != "race" else ["-fno-omit-frame-pointer"]) + pub_includes(repo) + gen_inc + ["-I" + VERIF]

    def harness_job(rel):
        src = os.path.join(VERIF, rel)
        key = file_hash([src] + deps, " ".join(flags))
        obj = os.path.join(cache, "%s_%s.o" % (rel.replace("/", "_"), key))
        if not os.path.exists(obj):
            tmp = obj + ".%d.tmp" % os.getpid()
            run(flags + [src, "-o", tmp])
            os.replace(tmp, obj)
        return obj

    with concurrent.futures.ThreadPoolExecutor(max_workers=16) as ex:
        lf = [ex.submit(lib_job, rel) for rel in spec["lib"]]
        hf = [ex.submit(harness_job, rel) for rel in srcs]
        lib_objs = [f.result() for f in lf]
        h_objs = [f.result() for f in hf]
    binp = os.path.join(outdir, engine + "-" + kind)
    link_flags = sf if kind != "race" else []
    run([CXX] + link_flags + h_objs + lib_objs + ["-lpthread", "-ldl", "-o", binp])
    return binp


def prune_cache(keep=400):
    cache = os.path.join(VERIF, "build", "cache")
    files = sorted(glob.glob(os.path.join(cache, "*.o")), key=os.path.getmtime)
    for f in files[:-keep]:
        try:
            os.remove(f)
        except OSError:
            pass


if __name__ == "__main__":
    eng = sys.argv[1]
    kind = sys.argv[2] if len(sys.argv) > 2 else "asan"
    repo = os.environ.get("VERIF_REPO", "/repo")
    out = sys.argv[3] if len(sys.argv) > 3 else os.path.join(VERIF, "build", "manual")
    print(build(eng, kind, repo, out))
